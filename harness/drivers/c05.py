"""C05 - network input can never make the QUIC/TLS API raise.

(M) TLC explores spec/ConnTotal.tla exhaustively: every phase of a client and
    of a server (first flight, each TLS state of the handshake, complete,
    confirmed, close pending / closing / draining, before and after
    confirmation) reached by every valid prefix, and in each of them every
    input class (datagram level, frame level x packet epoch, TLS message
    level); invariants NeverRaised, ApiAlwaysEnabled, QuietAfterReport,
    TableTotal.  TLC prints every (role, phase, class) edge.
(R) every printed edge is concretised (harness/c05_classes.py, c05_tls.py:
    boundary values, truncations, repetitions, mutated genuine messages) and
    replayed on a fresh pair of real QuicConnections driven to that phase by
    the netsim; after the hostile call the five API functions keep being
    called (genuine traffic delivered, timers fired) until termination is
    reported or a step bound.
(V) long seeded random hostile sessions (random frame sequences of a
    key-holding peer, garbage, mutated genuine datagrams, application
    activity), >= 10^4 hostile datagrams per quick run.
TraceConnTotal judges every recorded call: an exception escaping
receive_datagram / datagrams_to_send / get_timer / handle_timer / next_event
is the only violation; the outcome table is model detail (SPEC-DRIFT)."""
import hashlib
import json
import random

from .. import trace
from ..netsim import runner
from ..overlay import MachineryError

L = None
K = None

CFG_M = """SPECIFICATION Spec
CONSTANTS MaxHostile = %d
PrintEdges = TRUE
INVARIANT TypeOk
INVARIANT NeverRaised
INVARIANT ApiAlwaysEnabled
INVARIANT QuietAfterReport
INVARIANT ReportOnlyWhenTerminated
INVARIANT TableTotal
"""
DEAD = ("closepending", "hsclosepending", "hsclosing", "closing", "draining")


def h32(*a):
    return int.from_bytes(hashlib.sha1(repr(a).encode()).digest()[:4], "big")


def edges_from(r):
    out = {}
    for ln in r.out.splitlines():
        if ln.startswith('"EDGE|'):
            f = ln.strip().strip('"').split("|")
            if len(f) != 10:
                raise MachineryError("unparsable EDGE line from TLC: " + ln)
            _, role, phase, lvl, name, ep, sig, cur, ft, asp = f
            out[(role, phase, lvl, name, ep)] = {"role": role, "phase": phase, "sig": sig, "cur_ep": cur,
                                                 "cls": {"lvl": lvl, "name": name, "ep": ep, "ft": ft, "asp": asp}}
    return [out[k] for k in sorted(out)]


def variants_of(e, thorough):
    c = e["cls"]
    if c["lvl"] == "f":
        return [v for v, _ in K.frame_variants(c["name"], c["ft"], c["asp"], c["ep"], e["role"])]
    if c["lvl"] == "d":
        return K.dgram_variants(c["name"], thorough)
    return K.tls_variants(c["name"], L.REF, e["role"])


def make_jobs(check, edges):
    jobs = []
    thorough = not check.quick
    cache = {}
    for e in edges:
        c = e["cls"]
        key = (e["role"], c["lvl"], c["name"], c["ep"])
        if key not in cache:
            cache[key] = variants_of(e, thorough)
        vs = cache[key]
        if not vs:
            raise MachineryError("class %r has no concretisation" % (c,))
        rot = h32(check.seed, e["role"], e["phase"], c["lvl"], c["name"], c["ep"])
        dead = e["phase"] in DEAD
        unopenable = e["sig"].startswith("f:unopenable")
        if check.quick:
            if dead:
                n = 1 if rot % 6 == 0 else 0
            elif unopenable:
                n = 1 if rot % 4 == 0 else 0
            else:
                n = 2 if (c["lvl"] == "d" or rot % 2 == 0) else 1
        else:
            n = 1 if dead else 2 if unopenable else len(vs)
        n = min(n, len(vs))
        for k in range(n):
            vid = vs[(rot // 7 + k * max(1, len(vs) // n)) % len(vs)] if n < len(vs) else vs[k]
            heavy = "gaps" in vid or "700" in c["name"]
            if heavy and check.quick and (unopenable or dead):
                continue
            jobs.append({"role": e["role"], "phase": e["phase"], "cls": c, "vid": vid, "sig": e["sig"], "cur_ep": e["cur_ep"],
                         "seed": h32(check.seed, "job", e["role"], e["phase"], c["lvl"], c["name"], c["ep"], vid) & 0x3fffffff,
                         "steps": 40})
    # corpus: concretisations that are always run (known-interesting ones, whatever the rotation picked)
    always = [("server", "first", "d", "rand-1200", "-", "short"), ("server", "first", "d", "rand-1199", "-", "long"),
              ("server", "first", "d", "empty", "-", "empty"), ("server", "first", "f", "ping:min", "a", "min"),
              ("server", "first", "f", "ping:min", "h", "min"), ("server", "first", "f", "ping:min", "z", "min"),
              ("server", "confirmed", "f", "hdr:pn-gaps-700", "a", "gaps700-step2"), ("client", "confirmed", "f", "hdr:pn-gaps-700", "a", "gaps700-step2"),
              ("client", "confirmed", "f", "ncid:consume-sequence", "a", "seq2-seq1-change-change-dup22"),
              ("server", "confirmed", "f", "ncid:consume-sequence", "a", "seq2-seq1-change-change-dup22"),
              ("server", "first", "t", "ch:keyshare-unknown-group", "-", "only-unknown"), ("server", "first", "t", "ch:keyshare-short-key", "-", "g001d-31"),
              ("client", "first", "t", "sh:keyshare-unknown-group", "-", "only-unknown"), ("client", "first", "t", "sh:keyshare-short-key", "-", "g001d-31"),
              ("client", "cert", "t", "cert:empty-list", "-", "empty-list"), ("server", "first", "t", "ch:sni-nonascii", "-", "latin1"),
              ("client", "ee", "t", "ee:alpn-empty-list", "-", "empty-list"),
              ("client", "first", "t", "sh:psk-selected-index", "-", "idx-0000"), ("client", "first", "t", "sh:psk-selected-index", "-", "idx-0001"),
              ("client", "cv", "t", "cv:alg-not-advertised", "-", "ecdsa-p256"), ("client", "cv", "t", "cv:alg-not-advertised", "-", "ed25519")]
    have = {(j["role"], j["phase"], j["cls"]["lvl"], j["cls"]["name"], j["cls"]["ep"], j["vid"]) for j in jobs}
    by = {(e["role"], e["phase"], e["cls"]["lvl"], e["cls"]["name"], e["cls"]["ep"]): e for e in edges}
    for a in always:
        if a in have:
            continue
        e = by.get(a[:5])
        if e is None:
            raise MachineryError("corpus entry %r is not an edge TLC printed" % (a,))
        if a[5] not in cache[(a[0], a[2], a[3], a[4])]:
            raise MachineryError("corpus entry %r is not a variant" % (a,))
        jobs.append({"role": a[0], "phase": a[1], "cls": e["cls"], "vid": a[5], "sig": e["sig"], "cur_ep": e["cur_ep"],
                     "seed": h32(check.seed, "job", a) & 0x3fffffff, "steps": 40})
    return jobs


def job_fn(job):
    if job.get("kind") == "session":
        return L.run_genuine(job) if job.get("genuine") else L.run_session(job)
    return L.run_job(job)


def judge(check, jobs, results, name):
    lines, owner = [], []
    for ji, r in enumerate(results):
        for ln in r["lines"]:
            lines.append(ln)
            owner.append(ji)
    fails = trace.validate(check, "TraceConnTotal", lines, name=name, group_key=lambda ln: ln["ev"] == "init",
                           constants="CONSTANTS MaxHostile = 1\nPrintEdges = FALSE")
    check.cov["traces_validated_against_impl"] += sum(1 for ln in lines if ln["ev"] == "init")
    seen = set()
    nviol = 0
    for i, clause in fails:
        ji = owner[i]
        job, ln = jobs[ji], lines[i]
        if clause.startswith("harness-guard"):
            raise MachineryError("%s failed for job %r (line %r)" % (clause, {k: v for k, v in job.items() if k != "cls"} | {"cls": job.get("cls")}, ln))
        if clause == "never-raises":
            cls = ln["cls"] or job.get("sig", "?")
            for call, raised in zip(ln["calls"], ln["raised"]):      # formatting only: TLC has judged the line
                if not raised:
                    continue
                sig = "total:%s:%s:%s:%s" % (ln["role"], call, raised, cls)
                if sig in seen:
                    continue
                seen.add(sig)
                nviol += 1
                detail = {"clause": clause, "line": ln, "job": job,
                          "summary": results[ji].get("summary", {}) if isinstance(results[ji], dict) else {}}
                check.violation(sig, detail)
        elif clause.startswith("model:"):
            init = next(lines[j] for j in range(i, -1, -1) if lines[j]["ev"] == "init")
            obs_ = results[ji].get("summary", {})
            sig = "%s:%s:%s:%s:observed=%s%s" % (clause, init["role"], init["phase"], init["sig"] if init["sig"].startswith("f:unopenable") else
                                                 "%s:%s%s" % (init["lvl"], init["name"], "" if init["ep"] == "-" else "@" + init["ep"]),
                                                 obs_.get("outcome"), "(%s)" % obs_.get("code") if obs_.get("outcome") == "Close" else "")
            check.drift(sig, {"job": {k: v for k, v in job.items()}, "end": ln, "summary": obs_})
        else:
            raise MachineryError("unknown clause " + clause)
    return nviol


def run(check):
    global L, K
    check.build_overlay()
    from .. import c05_classes, c05_lib
    L, K = c05_lib, c05_classes
    L.setup()
    check.cov["trusted_base"] = ["TLC", "netsim driver + independent observer/encryptor (packet protection of hostile packets)",
                                 "c05_tls.py structural TLS codec (builds the mutated messages)", "internal reads: " + "; ".join(L.INTERNAL_READS)]
    check.assumptions += [
        "the environment calls the API the way QuicConnectionProtocol does: after every call next_event() is drained, datagrams_to_send() and "
        "get_timer() are called; handle_timer() is called 1 microsecond after the deadline get_timer() named; no call after ConnectionTerminated was returned",
        "the connection objects are driven through the sans-IO API: a fresh server object may be handed any datagram as its first one (the asyncio "
        "QuicServer only creates a connection for an Initial packet in a datagram of at least 1200 bytes), and a datagram may arrive between "
        "close() and the next datagrams_to_send() (phase closepending)",
        "a client only receives datagrams after connect(); configuration is the default one (max_datagram_size 1200): exceptions caused by configuration are out of scope",
        "'every byte string' is covered as every input class in every phase with boundary-value and seeded-random concretisations inside a class, not as an enumeration of bytes",
        "after the hostile input the run is continued for a bounded number of steps (genuine traffic, timers, then a blackout until the idle timeout of 1.5 s) - termination is normally reached"]
    if check.replay:
        d = json.load(open(check.replay))["detail"]
        if "job" not in d:
            raise MachineryError("replay of a design-level counterexample: run the check itself")
        job = d["job"]
        if "cls" in job and isinstance(job["cls"], dict):
            job["cls"] = dict(job["cls"])
        res = [job_fn(job)]
        judge(check, [job], res, "replay")
        check.count(repr(job), evaluations=len(res[0]["lines"]))
        check.sample({"replayed": {k: v for k, v in job.items() if k != "cls"}, "lines": res[0]["lines"][:6]})
        check.cov["rule"] = "replay of one recorded edge / session"
        return
    import time
    t0 = time.time()
    parts = {}
    r = check.run_tlc("ConnTotal", CFG_M % (1 if check.quick else 2), name="ConnTotal_M", timeout=1800)
    if r.violated:
        check.model_violation(r, "ConnTotal")
        return
    edges = edges_from(r)
    parts["tlc_model"] = round(time.time() - t0, 1)
    if len(edges) < 10000:
        raise MachineryError("TLC printed only %d edges" % len(edges))
    jobs = make_jobs(check, edges)
    rnd = random.Random(check.seed)
    nsess = 16 if check.quick else 48
    quota = 700 if check.quick else 2500
    sess = [{"kind": "session", "seed": rnd.randrange(1 << 30), "quota": quota, "steps": 400} for _ in range(nsess)]
    ngen = 8 if check.quick else 32            # (V') genuine traffic under reordering, duplication and loss: no hostile input at all
    sess += [{"kind": "session", "genuine": True, "seed": rnd.randrange(1 << 30), "n": 12 if check.quick else 60} for _ in range(ngen)]
    nsess = len(sess)
    order = list(range(len(jobs)))
    random.Random(check.seed + 1).shuffle(order)          # spread heavy jobs over the workers
    jobs = [jobs[i] for i in order]
    # replay in batches (a thorough run records millions of lines): each batch is judged by TLC and only summaries are kept
    parts["replay_on_real_connections"] = parts["tlc_trace_validation"] = 0.0
    BATCH = 12000
    summaries, sres, samples = [], [], []
    for b0 in range(0, len(jobs), BATCH):
        chunk = jobs[b0:b0 + BATCH]
        t1 = time.time()
        res = runner.run_many(job_fn, (sess if b0 == 0 else []) + chunk)
        t2 = time.time()
        if b0 == 0:          # the sessions (V) are judged together with the first batch of edges (R): one set of TLC processes
            judge(check, sess + chunk, res, "TraceConnTotal_VR0")
            sres = [{"hostile": r_["hostile"], "sessions": r_["sessions"],
                     "n": sum(len(ln["calls"]) for ln in r_["lines"] if ln["ev"] == "calls")} for r_ in res[:nsess]]
            res = res[nsess:]
        else:
            judge(check, chunk, res, "TraceConnTotal_R%d" % (b0 // BATCH))
        parts["replay_on_real_connections"] += round(t2 - t1, 1)
        parts["tlc_trace_validation"] += round(time.time() - t2, 1)
        for j, r_ in zip(chunk, res):
            if len(samples) < 2 and r_["summary"]["outcome"] == ("Close", "Progress")[len(samples)]:
                samples.append({"edge": [j["role"], j["phase"], j["cls"]["lvl"], j["cls"]["name"], j["cls"]["ep"], j["vid"]],
                                "summary": r_["summary"], "lines": r_["lines"][:8]})
            summaries.append(r_["summary"])
    check.cov["wall_parts_s"] = parts
    jres = [{"summary": sm} for sm in summaries]
    # ---- evidence
    outcomes, covered = {}, set()
    for job, res in zip(jobs, jres):
        sm = res["summary"]
        c = job["cls"]
        covered.add((job["role"], job["phase"], c["lvl"], c["name"], c["ep"]))
        outcomes[sm["outcome"]] = outcomes.get(sm["outcome"], 0) + 1
        check.count((job["role"], job["phase"], c["lvl"], c["name"], c["ep"], job["vid"]),
                    nontrivial=sm["outcome"] != "Ignored" or job["phase"] in DEAD or bool(sm["raised"]), evaluations=sm["n"])
    hostile_v = sum(r_["hostile"] for r_ in sres)
    for sj, r_ in zip(sess, sres):
        check.count(("session", sj["seed"]), evaluations=r_["n"])
    if hostile_v < 10000:
        raise MachineryError("random hostile sessions sent only %d datagrams" % hostile_v)
    check.cov.update({"edges_printed_by_tlc": len(edges), "edges_replayed": len(covered), "concretisations_replayed": len(jobs),
                      "outcomes": outcomes, "hostile_datagrams_in_edges": sum(r_["summary"]["hostile"] for r_ in jres),
                      "random_sessions": sum(r_["sessions"] for r_ in sres), "hostile_datagrams_in_sessions": hostile_v,
                      "close_codes_seen": sorted({r_["summary"]["code"] for r_ in jres if r_["summary"]["outcome"] == "Close"})[:60],
                      "runs_with_api_exception": sum(1 for r_ in jres if r_["summary"]["raised"])})
    for sm in samples or [{"summary": summaries[0]}]:
        check.sample(sm)
    check.cov["rule"] = ("one case = one (role, phase, input class, concretisation) replayed on a fresh pair of real connections driven to the phase, "
                         "followed by the API calls until termination; non-trivial = the input was processed (Progress / Close), or it arrived in a "
                         "closing phase, or a call raised; every edge TLC printed is replayed in the thorough tier, the quick tier samples the closing "
                         "phases and the unopenable-epoch classes by seed; plus random hostile sessions")
