"""Check context: work directory, overlay, evidence, violations, known findings."""
import hashlib
import json
import os
import shutil
import sys
import time
import traceback

from . import overlay, tlc
from .overlay import MachineryError

ROOT = os.path.dirname(os.path.dirname(os.path.abspath(__file__)))


def load_known():
    open_, fixed = [], []
    paths = [os.path.join(ROOT, "known_findings.jsonl")]
    if os.environ.get("VERIF_KNOWN_EXTRA"):       # development aid: proposed entries not yet committed
        paths.append(os.environ["VERIF_KNOWN_EXTRA"])
    for p in paths:
        if not os.path.exists(p):
            continue
        for line in open(p):
            line = line.strip()
            if not line or line.startswith("#"):
                continue
            if line.startswith("fixed:"):
                fixed.append(line)
                continue
            open_.append(json.loads(line))
    return open_, fixed


class Check:
    def __init__(self, pid, tier, seed):
        self.pid = pid
        self.tier = tier
        self.seed = seed
        self.quick = tier == "quick"
        self.t0 = time.time()
        self.work = os.path.join(ROOT, ".work", "%s-%s-%d" % (pid, tier, os.getpid()))
        shutil.rmtree(self.work, ignore_errors=True)
        os.makedirs(self.work)
        self.cov = {"states": 0, "transitions": 0, "traces_validated_against_impl": 0,
                    "evaluations": 0, "distinct_nontrivial": 0, "samples": [],
                    "trusted_base": [], "tlc_runs": [], "rule": ""}
        self.assumptions = []
        self.violations = []          # (signature, detail dict)
        self.known_hits = {}          # key -> what
        self.drifts = {}              # signature -> detail: code left the model outside the property
        self.known, self.fixed = load_known()
        self.known = [k for k in self.known if k["property"] == pid]
        self.overlay_root = None
        self._distinct = set()

    # -- building -----------------------------------------------------------
    def build_overlay(self, activate=True):
        self.overlay_root = overlay.build(self.work)
        if activate:
            overlay.activate(self.overlay_root)
        self.cov["tree_digest"] = overlay.tree_digest()
        return self.overlay_root

    # -- TLC ---------------------------------------------------------------
    def run_tlc(self, module, cfg, name=None, **kw):
        r = tlc.run(module, cfg, os.path.join(self.work, "tlc"), name=name, **kw)
        self.cov["states"] += r.distinct
        self.cov["transitions"] += r.generated
        self.cov["tlc_runs"].append(dict(r.summary(), module=module, name=name or module))
        return r

    # -- bookkeeping ---------------------------------------------------------
    def count(self, key, nontrivial=True, evaluations=1):
        """Count one explored case; `key` identifies it for distinctness."""
        self.cov["evaluations"] += evaluations
        if nontrivial:
            h = hashlib.sha1(repr(key).encode()).digest()[:8]
            if h not in self._distinct:
                self._distinct.add(h)
                self.cov["distinct_nontrivial"] += 1

    def sample(self, s, limit=6):
        if len(self.cov["samples"]) < limit:
            self.cov["samples"].append(s)

    def violation(self, signature, detail):
        """Report a violation.  `signature` is the specific identity of the
        failing case (matched against known_findings.jsonl keys)."""
        for k in self.known:
            if k["key"] == signature:
                if signature not in self.known_hits:
                    self.known_hits[signature] = k["what"]
                return False
        if any(v[0] == signature for v in self.violations):
            return True
        self.violations.append((signature, detail))
        return True

    def drift(self, signature, detail):
        """The code disagrees with the specification on behaviour that the
        statement of the property does not cover.  Reported (SPEC-DRIFT line,
        evidence) so that the specification can follow the code; never an alarm."""
        self.drifts.setdefault(signature, detail)

    def model_violation(self, r, what):
        """A TLC run of a design-level configuration found a counterexample."""
        detail = {"kind": "model", "what": what, "violated": r.violated,
                  "trace": [(a, s) for a, s in r.error_trace[-12:]]}
        self.violation("model:%s:%s" % (what, r.violated), detail)

    # -- finishing -------------------------------------------------------------
    def finish(self):
        shutil.rmtree(self.work, ignore_errors=True)
        wall = time.time() - self.t0
        for key, what in self.known_hits.items():
            print("KNOWN-FINDING: property=%s %s [%s]" % (self.pid, what, key))
        for sig in sorted(self.drifts):
            print("SPEC-DRIFT property=%s (outside the property's statement, not an alarm): %s" % (self.pid, sig))
        paths = []
        for sig, detail in self.violations:
            d = os.path.join(ROOT, "replays", self.pid)
            os.makedirs(d, exist_ok=True)
            h = hashlib.sha1(sig.encode()).hexdigest()[:12]
            p = os.path.join(d, h + ".json")
            with open(p, "w") as f:
                json.dump({"property": self.pid, "signature": sig, "seed": self.seed,
                           "tier": self.tier, "detail": detail}, f, indent=1, default=str)
            paths.append(p)
            print("VIOLATION property=%s replay=%s" % (self.pid, p))
            print("  signature: %s" % sig)
        cov = dict(self.cov)
        cov["known_findings_hit"] = sorted(self.known_hits)
        cov["spec_drift"] = [{"signature": k, "detail": v} for k, v in sorted(self.drifts.items())][:20]
        if cov["states"] < 1 or cov["transitions"] < 1:
            raise MachineryError("no TLC run contributed states: evidence would be empty")
        if not cov["samples"]:
            raise MachineryError("no samples recorded")
        ev = {"property_id": self.pid, "tier": self.tier, "seed": self.seed,
              "level": "model_checking", "coverage": cov, "assumptions": self.assumptions,
              "wall_s": round(wall, 2), "violations": len(self.violations)}
        if not getattr(self, "replay", None):     # a replay re-judges one case; the evidence describes a full run
            # evidence/ describes runs against /repo itself; a run against another tree (VERIF_REPO, seeded regressions)
            # leaves its record under .work/
            other = os.environ.get("VERIF_REPO", "/repo").rstrip("/") != "/repo"
            evdir = os.path.join(ROOT, ".work", "evidence-other-tree") if other else os.path.join(ROOT, "evidence")
            os.makedirs(evdir, exist_ok=True)
            with open(os.path.join(evdir, self.pid + ".json"), "w") as f:
                json.dump(ev, f, indent=1, default=str)
        print("%s %s: %s  states=%d transitions=%d impl_traces=%d evaluations=%d distinct=%d wall=%.1fs" % (
            self.pid, self.tier, "VIOLATED" if self.violations else "held",
            cov["states"], cov["transitions"], cov["traces_validated_against_impl"],
            cov["evaluations"], cov["distinct_nontrivial"], wall))
        return 1 if self.violations else 0


def main(pid, run, argv=None):
    import argparse
    ap = argparse.ArgumentParser()
    ap.add_argument("--tier", default=os.environ.get("VERIF_TIER", "quick"), choices=["quick", "thorough"])
    ap.add_argument("--replay")
    a = ap.parse_args(argv)
    seed = int(os.environ.get("VERIF_SEED", "20260921"))
    c = None
    try:
        c = Check(pid, a.tier, seed)
        c.replay = a.replay
        if a.replay and not os.path.exists(a.replay):
            raise MachineryError("replay file not found: " + a.replay)
        run(c)
        return c.finish()
    except MachineryError as e:
        print("MACHINERY-FAILURE property=%s: %s" % (pid, e), file=sys.stderr)
        return 2
    except Exception:
        traceback.print_exc()
        print("MACHINERY-FAILURE property=%s: unexpected exception in harness" % pid, file=sys.stderr)
        return 2
    finally:
        if c is not None:       # never leave an overlay / TLC scratch behind, whatever happened
            shutil.rmtree(c.work, ignore_errors=True)
