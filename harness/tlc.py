"""Thin wrapper around TLC: run a module with a literal cfg, parse the verdict."""
import os
import re
import shutil
import subprocess
import time

from .overlay import MachineryError

SPEC = os.path.join(os.path.dirname(os.path.dirname(os.path.abspath(__file__))), "spec")
JAR = "/opt/veriftools/tla/tla2tools.jar"
CM = "/opt/veriftools/tla/CommunityModules-deps.jar"


class TlcResult:
    def __init__(self):
        self.ok = False              # completed, no error
        self.violated = None         # name of violated invariant / property, or "deadlock"/"assumption"
        self.generated = 0
        self.distinct = 0
        self.depth = 0
        self.error_trace = []        # list of (action label, {var: text})
        self.out = ""
        self.wall = 0.0
        self.prints = []             # values printed with PrintT, as raw text
        self.coverage = {}           # action name -> (distinct, total) when -coverage

    def summary(self):
        return {"ok": self.ok, "violated": self.violated, "generated": self.generated,
                "distinct": self.distinct, "depth": self.depth, "wall_s": round(self.wall, 2)}


_STATE_HDR = re.compile(r"^State (\d+): <(.*)>\s*$")


def _classpath():
    # `tlc` on PATH is a wrapper script; find what it puts on the classpath
    cp = [JAR]
    d = os.path.dirname(JAR)
    for f in sorted(os.listdir(d)):
        if f.endswith(".jar") and os.path.join(d, f) != JAR:
            cp.append(os.path.join(d, f))
    return ":".join(cp)


def run(module, cfg_text, workdir, name=None, workers=16, timeout=1800, env=None,
        simulate=None, depth=None, seed=None, coverage=False, deadlock=False,
        extra=None, heap="4g", dfs=False):
    """Run TLC on spec/<module>.tla with the given cfg text.  Returns TlcResult.
    Raises MachineryError when TLC itself fails (parse error, crash, timeout)."""
    name = name or module
    os.makedirs(workdir, exist_ok=True)
    cfg = os.path.join(workdir, name + ".cfg")
    with open(cfg, "w") as f:
        f.write(cfg_text)
    meta = os.path.join(workdir, "meta-" + name)
    shutil.rmtree(meta, ignore_errors=True)
    jopts = ["-XX:+UseParallelGC", "-Xmx" + heap, "-Xss16m"]
    if dfs:
        jopts.append("-Dtlc2.tool.queue.IStateQueue=StateDeque")
    cmd = ["java"] + jopts + ["-cp", _classpath(), "tlc2.TLC",
           "-workers", str(workers), "-metadir", meta, "-noGenerateSpecTE",
           "-config", cfg]
    if not deadlock:
        cmd.append("-deadlock")          # TLC flag: do NOT check deadlock
    if simulate:
        cmd += ["-simulate", simulate]
    if depth:
        cmd += ["-depth", str(depth)]
    if seed is not None:
        cmd += ["-seed", str(seed)]
    if coverage:
        cmd += ["-coverage", "1"]
    if extra:
        cmd += list(extra)
    cmd.append(os.path.join(SPEC, module + ".tla"))
    e = dict(os.environ)
    e.pop("JAVA_TOOL_OPTIONS", None)
    if env:
        e.update(env)
    t0 = time.time()
    try:
        p = subprocess.run(cmd, capture_output=True, text=True, timeout=timeout, env=e, cwd=workdir)
    except subprocess.TimeoutExpired:
        raise MachineryError("TLC timed out after %ss on %s" % (timeout, name))
    finally:
        shutil.rmtree(meta, ignore_errors=True)
    r = TlcResult()
    r.wall = time.time() - t0
    r.out = p.stdout + p.stderr
    _parse(r)
    if r.violated is None and not r.ok:
        raise MachineryError("TLC failed on %s (exit %s):\n%s" % (name, p.returncode, r.out[-3000:]))
    return r


def _parse(r):
    out = r.out
    m = None
    for m in re.finditer(r"(\d+) states generated, (\d+) distinct states found", out):
        pass
    if m:
        r.generated, r.distinct = int(m.group(1)), int(m.group(2))
    m = re.search(r"The depth of the complete state graph search is (\d+)", out)
    if m:
        r.depth = int(m.group(1))
    if "Model checking completed. No error has been found." in out or \
       re.search(r"Finished in .* at ", out) and "Error:" not in out:
        r.ok = True
    m = re.search(r"Error: Invariant (\S+) is violated", out)
    if m:
        r.violated = m.group(1)
    m2 = re.search(r"Error: Action property (\S+) is violated", out)
    if m2:
        r.violated = m2.group(1)
    if "Error: Temporal properties were violated" in out:
        r.violated = "temporal"
    if "Error: Deadlock reached" in out:
        r.violated = "deadlock"
    m3 = re.search(r"Error: Assumption .* is false", out)
    if m3:
        r.violated = "assumption"
    if "Error: The postcondition" in out or "POSTCONDITION" in out and "violated" in out:
        r.violated = r.violated or "postcondition"
    if r.violated:
        r.ok = False
        cur = None
        for line in out.splitlines():
            h = _STATE_HDR.match(line)
            if h:
                cur = (h.group(2), {})
                r.error_trace.append(cur)
                continue
            if cur is not None:
                mm = re.match(r"^(?:/\\ )?(\w+) = (.*)$", line)
                if mm:
                    cur[1][mm.group(1)] = mm.group(2)
                    last = mm.group(1)
                elif line.strip() == "":
                    cur = None
                elif cur[1]:
                    cur[1][last] += " " + line.strip()
    # PrintT output: tuples starting with <<" ; TLC wraps a tuple longer than 80 columns over several
    # lines ("<< \"TAG\",\n   1,\n   \"...\" >>"), which must not be lost
    r.prints = []
    lines_ = out.splitlines()
    i = 0
    while i < len(lines_):
        l = lines_[i]
        if l.startswith('<<"'):
            r.prints.append(l)
        elif l.startswith('<< "'):
            parts = [l[2:].strip()]
            while not parts[-1].endswith(">>") and i + 1 < len(lines_):
                i += 1
                parts.append(lines_[i].strip())
            r.prints.append("<<" + " ".join(parts).replace(" >>", ">>"))
        i += 1
    for m in re.finditer(r"^<(\w+) line \d+, col \d+ to line \d+, col \d+ of module \w+>: (\d+):(\d+)", out, re.M):
        a, d, t = m.group(1), int(m.group(2)), int(m.group(3))
        pd, pt = r.coverage.get(a, (0, 0))
        r.coverage[a] = (pd + d, pt + t)


def parse_tuple_line(line):
    """Parse a PrintT'ed flat tuple of strings / ints: <<"A", 3, "x">> -> ["A", 3, "x"]."""
    body = line.strip()[2:-2]
    out = []
    for m in re.finditer(r'"((?:[^"\\]|\\.)*)"|(-?\d+)|(TRUE|FALSE)', body):
        if m.group(1) is not None:
            out.append(m.group(1))
        elif m.group(2) is not None:
            out.append(int(m.group(2)))
        else:
            out.append(m.group(3) == "TRUE")
    return out
