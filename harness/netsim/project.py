"""Projections of the raw run log to per-module traces: event-kind filters and
field selection only (no state is reconstructed here)."""


def other(ep):
    return "s" if ep == "c" else "c"


def transfer(log):
    out = [{"ev": "init"}]
    for e in log:
        k = e["k"]
        if k == "api":
            if e["raised"]:
                out.append({"ev": "raised", "what": e["call"] + ":" + e["raised"]})
            elif e["call"] == "write":
                out.append({"ev": "write", "k": "%s%d" % (e["ep"], e["sid"]), "sid": e["sid"], "n": e["n"], "fin": e["fin"]})
            elif e["call"] == "reset":
                out.append({"ev": "reset", "k": "%s%d" % (e["ep"], e["sid"])})
            elif e["call"] == "stop":
                out.append({"ev": "reset", "k": "%s%d" % (other(e["ep"]), e["sid"])})
        elif k == "ev":
            if e["cls"] == "StreamDataReceived":
                out.append({"ev": "data", "k": "%s%d" % (other(e["ep"]), e["sid"]), "sid": e["sid"],
                            "data": e["data"], "end": e["end"]})
            elif e["cls"] == "StreamReset":
                out.append({"ev": "sreset", "k": "%s%d" % (other(e["ep"]), e["sid"])})
            elif e["cls"] == "ConnectionTerminated":
                out.append({"ev": "term", "ep": e["ep"], "code": e["code"]})
            elif e["cls"] == "RAISED":
                out.append({"ev": "raised", "what": "next_event:" + e["raised"]})
        elif k in ("rx", "tx", "timer", "gt") and e.get("raised"):
            out.append({"ev": "raised", "what": k + ":" + e["raised"]})
        elif k == "end":
            out.append({"ev": "end", "quiescent": e["quiescent"]})
    return out


def lifecycle(log):
    cfg = next((e["cfg"] for e in log if e["k"] == "cfg"), {})
    us = lambda side: int(round((cfg.get(side + "_idle") or cfg.get("idle") or 60.0) * 1e6))     # noqa: E731
    out = [{"ev": "init", "idle_c": us("c"), "idle_s": us("s")}]
    started = set()
    pk = {}
    for e in log:
        if e["k"] == "pkt":
            pk.setdefault(e["dg"], []).append(e)
    for e in log:
        k = e["k"]
        if k == "api" and e["call"] == "connect":
            out.append({"ev": "start", "ep": "c", "t": e["t"]})
            started.add("c")
        elif k == "arr" and e["haskeys"] and any(f["t"] == "connection_close" for f in pk[e["dg"]][e["idx"]].get("frames", [])):
            # the peer's CONNECTION_CLOSE reaches an endpoint that can open the packet
            out.append({"ev": "peerclose", "ep": e["ep"], "t": e["t"]})
        elif k == "rx" and e["ep"] == "s" and "s" not in started:
            started.add("s")
            out.append({"ev": "start", "ep": "s", "t": e["t"]})
            out.append({"ev": "recv", "ep": "s", "t": e["t"]})
        elif k == "rx":
            out.append({"ev": "recv", "ep": e["ep"], "t": e["t"]})     # any datagram handed in may have restarted the idle period
        elif k == "api" and e["call"] == "close" and not e["raised"]:
            out.append({"ev": "apiclose", "ep": e["ep"]})
        elif k == "tx":
            frames = sorted({f["t"] for d in e["dgs"] for p in pk.get(d["id"], []) for f in p.get("frames", [])})
            opaque = sum(1 for d in e["dgs"] for p in pk.get(d["id"], []) if not p["ok"])
            out.append({"ev": "tx", "ep": e["ep"], "t": e["t"], "ndg": len(e["dgs"]), "ftypes": frames, "unopened": opaque,
                        "st0": e["st0"]["state"], "st": e["st"]["state"], "pto0": e["st0"]["pto"], "pto1": e["st"]["pto"]})
        elif k == "gt":
            out.append({"ev": "gt", "ep": e["ep"], "t": e["t"], "value": e["value"], "idle": e["idle"]})
        elif k == "timer":
            out.append({"ev": "timer", "ep": e["ep"], "t": e["t"], "due": e["due"]})
        elif k == "ev":
            out.append({"ev": "event", "ep": e["ep"], "cls": e["cls"]})
        elif k == "end":
            out.append({"ev": "end"})
    return out


END_STATES = ("CLOSING", "DRAINING", "TERMINATED")


def acktracker(log):
    out = [{"ev": "init"}]
    pk = {}
    for e in log:
        if e["k"] == "pkt":
            pk.setdefault(e["dg"], []).append(e)
    for e in log:
        k = e["k"]
        if k == "arr":
            out.append({"ev": "arr", "ep": e["ep"], "space": e["space"], "pn": e["pn"], "ackel": e["ackel"],
                        "auth": e["haskeys"], "maybe": e["maybe"], "t": e["t"], "hc": e["hc"]})
        elif k == "tx":
            acks, spaces = [], []
            for d in e["dgs"]:
                for p in pk.get(d["id"], []):
                    if not p.get("ok") or "frames" not in p:
                        continue
                    spaces.append(p["space"])
                    for f in p["frames"]:
                        if f["t"] == "ack":
                            acks += [[p["space"], r[0], r[1]] for r in f["ranges"]]
            out.append({"ev": "tx", "ep": e["ep"], "t": e["t"], "acks": acks, "spaces": sorted(set(spaces)),
                        "validated": e["st"]["validated"],
                        "closing": e["st"]["state"] in END_STATES or e["st0"]["state"] in END_STATES})
        elif k == "gt":
            out.append({"ev": "gt", "ep": e["ep"], "t": e["t"], "value": e["value"]})
    return out


def emission(log):
    cfg = next(e["cfg"] for e in log if e["k"] == "cfg")
    out = [{"ev": "init", "mds_c": cfg["mds"], "mds_s": cfg["mds"]}]
    pk = {}
    for e in log:
        if e["k"] == "pkt":
            pk.setdefault(e["dg"], []).append(e)
    pending_arr = []
    for e in log:
        k = e["k"]
        if k == "arr":
            pending_arr.append(e)
        elif k == "app":
            # Retry runs: what the server *application* received and sent before a connection existed counts towards the
            # bytes received from / sent to that address; an Initial carrying the token issued to its source address
            # validates the address (RFC 9000 8.1.2)
            if e["what"] == "rx":
                out.append({"ev": "rx", "ep": e["ep"], "addr": e["addr"], "len": e["len"]})
            elif e["what"] == "retry":
                out.append({"ev": "dg", "ep": e["ep"], "to": e["to"], "len": e["len"], "hasInitial": False,
                            "initialAckEl": False, "chal": []})
            elif e["what"] == "token-ok":
                out.append({"ev": "auth", "ep": e["ep"], "addr": e["addr"], "kind": "token", "ids": []})
        elif k == "rx":
            out.append({"ev": "rx", "ep": e["ep"], "addr": e["addr"], "len": e["len"]})
            for a in pending_arr:
                if a["haskeys"] and not e["forged"]:
                    p = pk[a["dg"]][a["idx"]]
                    ids = [f["id"] for f in p.get("frames", []) if f["t"] == "path_response"]
                    out.append({"ev": "auth", "ep": e["ep"], "addr": e["addr"],
                                "kind": "handshake" if a["type"] == "handshake" else "other", "ids": ids})
            pending_arr = []
        elif k == "tx":
            for d in e["dgs"]:
                ps = pk.get(d["id"], [])
                out.append({"ev": "dg", "ep": e["ep"], "to": d["to"], "len": d["len"],
                            "hasInitial": any(p["type"] == "initial" for p in ps),
                            "initialAckEl": any(p["type"] == "initial" and p.get("ok") and p.get("ackel") for p in ps),
                            "chal": [f["id"] for p in ps for f in p.get("frames", []) if f["t"] == "path_challenge"]})
    return out


def flowsend(log):
    cfg = next(e["cfg"] for e in log if e["k"] == "cfg")
    c_msd, c_md = cfg["max_stream_data"], cfg["max_data"]
    s_msd = cfg["s_max_stream_data"] if cfg.get("s_max_stream_data") is not None else c_msd
    s_md = cfg["s_max_data"] if cfg.get("s_max_data") is not None else c_md
    ms = cfg.get("max_streams") or 128
    # limits *given to* c are the server's configuration and vice versa
    out = [{"ev": "init", "sl_c": s_msd, "cl_c": s_md, "mb_c": ms, "mu_c": ms, "sl_s": c_msd, "cl_s": c_md, "mb_s": ms, "mu_s": ms}]
    rem = cfg.get("remembered")
    if rem:
        # a resumed session: until it has processed the server's transport parameters the client works with the limits
        # it remembers from the ticket (what the priming server was configured with); the server's own appear below,
        # when the client reports ProtocolNegotiated (the call that parses them)
        out[0].update({"sl_c": rem["max_stream_data"], "cl_c": rem["max_data"], "mb_c": rem["max_streams"], "mu_c": rem["max_streams"]})
    pk = {}
    for e in log:
        if e["k"] == "pkt":
            pk.setdefault(e["dg"], []).append(e)
    for e in log:
        k = e["k"]
        if k == "arr" and (e["haskeys"] or e.get("maybe")):
            # (a packet whose keys were installed by an earlier packet of the same datagram may have been processed:
            # the limits it carries may have been given to the endpoint - the reading that never blames the sender wrongly)
            for f in pk[e["dg"]][e["idx"]].get("frames", []):
                if f["t"] == "max_stream_data":
                    out.append({"ev": "lim", "ep": e["ep"], "kind": "stream", "sid": f["sid"], "value": f["max"]})
                elif f["t"] == "max_data":
                    out.append({"ev": "lim", "ep": e["ep"], "kind": "conn", "sid": 0, "value": f["max"]})
                elif f["t"] == "max_streams":
                    out.append({"ev": "lim", "ep": e["ep"], "kind": "uni" if f["uni"] else "bidi", "sid": 0, "value": f["max"]})
        elif k == "pkt" and e.get("ok") and "frames" in e:
            ends = [[f["sid"], f["off"] + f["len"]] for f in e["frames"] if f["t"] == "stream"]
            ends += [[f["sid"], f["final"]] for f in e["frames"] if f["t"] == "reset_stream"]
            if ends:
                out.append({"ev": "sent", "ep": e["ep"], "ends": ends})
        elif k == "api" and not e["raised"]:
            if e["call"] == "write":
                out.append({"ev": "write", "ep": e["ep"], "sid": e["sid"], "n": e["n"]})
            elif e["call"] == "reset":
                out.append({"ev": "reset", "ep": e["ep"], "sid": e["sid"]})
            elif e["call"] == "stop":
                out.append({"ev": "reset", "ep": other(e["ep"]), "sid": e["sid"]})
        elif k == "ev" and rem and e["ep"] == "c" and e["cls"] == "ProtocolNegotiated":
            for kind, v in (("stream0", s_msd), ("conn", s_md), ("bidi", ms), ("uni", ms)):
                out.append({"ev": "lim", "ep": "c", "kind": kind, "sid": 0, "value": v})
        elif k == "end":
            out.append({"ev": "end", "terminated": any(x["k"] == "ev" and x["cls"] == "ConnectionTerminated" for x in log)})
    return out


def wire(log):
    cfg = next(e["cfg"] for e in log if e["k"] == "cfg")
    out = []
    pk = {}
    for e in log:
        if e["k"] == "pkt":
            pk.setdefault(e["dg"], []).append(e)
    # "one probe datagram per timeout": the allowance exists from the moment the endpoint asks for a probe (its probe flag
    # rises between two transmit calls: a probe timeout fired, or - client only - packets arrived for which it has no keys
    # yet, RFC 9002 6.2.3) until the next call that puts in-flight bytes on the wire.  A flag that merely *stays* set after
    # such a call grants nothing.
    credit = {"c": False, "s": False}
    flag = {"c": False, "s": False}
    for e in log:
        if e["k"] == "tx":
            if e["st0"]["probe"] and not flag[e["ep"]]:
                credit[e["ep"]] = True
            infl = 0
            for d in e["dgs"]:
                ps = pk.get(d["id"], [])
                if any(p.get("inflight") for p in ps):
                    infl += sum(p["len"] for p in ps if p.get("inflight") or p["type"] == "dgram_padding")
            out.append({"ev": "tx", "ep": e["ep"], "cwnd0": e["st0"]["cwnd"], "bif0": e["st0"]["bif"], "probe0": credit[e["ep"]],
                        "mds": cfg["mds"], "inflight": infl, "ndg": len(e["dgs"]),
                        "closing": e["st"]["state"] in END_STATES or e["st0"]["state"] in END_STATES})
            if infl > 0:
                credit[e["ep"]] = False
            flag[e["ep"]] = e["st"]["probe"]
    return out


def cid(log):
    pk = {}
    for e in log:
        if e["k"] == "pkt":
            pk.setdefault(e["dg"], []).append(e)
    first = {}
    for e in log:
        if e["k"] == "pkt" and e.get("scid") and e["ep"] not in first and e["type"] in ("initial", "handshake"):
            first[e["ep"]] = e["scid"]
    cl = (next((e["cfg"] for e in log if e["k"] == "cfg"), {}).get("cid_limit") or {})
    out = [{"ev": "init", "cid0_c": first.get("c", 0), "cid0_s": first.get("s", 0), "lim_c": cl.get("c", 8), "lim_s": cl.get("s", 8)}]
    closed = set()
    for e in log:
        k = e["k"]
        if k == "arr" and e["haskeys"]:
            for f in pk[e["dg"]][e["idx"]].get("frames", []):
                if f["t"] == "new_connection_id":
                    out.append({"ev": "ncid", "ep": e["ep"], "seq": f["seq"], "rpt": f["rpt"], "cid": f["cid"]})
                elif f["t"] == "retire_connection_id":
                    out.append({"ev": "rcid", "ep": e["ep"], "seq": f["seq"]})
        elif k == "inject" and e.get("frames") and e.get("accepted"):
            dst = other(e["src"])
            for f in e["frames"]:
                if f["t"] == "new_connection_id":
                    out.append({"ev": "ncid", "ep": dst, "seq": f["seq"], "rpt": f["rpt"], "cid": f["cid"]})
        elif k == "pkt" and e.get("ok") and "frames" in e and e["type"] in ("1rtt", "handshake", "initial", "0rtt"):
            out.append({"ev": "pkt", "ep": e["ep"], "dg": e["dg"], "dcid": e["dcid"],
                        "retire": [f["seq"] for f in e["frames"] if f["t"] == "retire_connection_id"],
                        "ncids": [[f["seq"], f["cid"]] for f in e["frames"] if f["t"] == "new_connection_id"]})
        elif k == "net" and e["fate"] in ("deliver", "spoof") and e.get("dg"):
            out.append({"ev": "deliv", "dg": e["dg"]})
        elif k == "tx" and e["ep"] not in closed and (e["st"]["state"] in END_STATES or e["st0"]["state"] in END_STATES):
            closed.add(e["ep"])
            out.append({"ev": "closed", "ep": e["ep"]})
        elif k == "ev" and e["cls"] == "ConnectionTerminated" and e["ep"] not in closed:
            closed.add(e["ep"])
            out.append({"ev": "closed", "ep": e["ep"]})
        elif k == "end":
            out.append({"ev": "end", "quiescent": e["quiescent"]})
    return out
