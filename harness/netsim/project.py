"""Projections of the raw run log to per-module traces: event-kind filters and
field selection only (no state is reconstructed here)."""


def other(ep):
    return "s" if ep == "c" else "c"


def transfer(log):
    out = [{"ev": "init"}]
    for e in log:
        k = e["k"]
        if k == "api":
            if e["raised"]:
                out.append({"ev": "raised", "what": e["call"] + ":" + e["raised"]})
            elif e["call"] == "write":
                out.append({"ev": "write", "k": "%s%d" % (e["ep"], e["sid"]), "sid": e["sid"], "n": e["n"], "fin": e["fin"]})
            elif e["call"] == "reset":
                out.append({"ev": "reset", "k": "%s%d" % (e["ep"], e["sid"])})
            elif e["call"] == "stop":
                out.append({"ev": "reset", "k": "%s%d" % (other(e["ep"]), e["sid"])})
        elif k == "ev":
            if e["cls"] == "StreamDataReceived":
                out.append({"ev": "data", "k": "%s%d" % (other(e["ep"]), e["sid"]), "sid": e["sid"],
                            "data": e["data"], "end": e["end"]})
            elif e["cls"] == "StreamReset":
                out.append({"ev": "sreset", "k": "%s%d" % (other(e["ep"]), e["sid"])})
            elif e["cls"] == "ConnectionTerminated":
                out.append({"ev": "term", "ep": e["ep"], "code": e["code"]})
            elif e["cls"] == "RAISED":
                out.append({"ev": "raised", "what": "next_event:" + e["raised"]})
        elif k in ("rx", "tx", "timer", "gt") and e.get("raised"):
            out.append({"ev": "raised", "what": k + ":" + e["raised"]})
        elif k == "end":
            out.append({"ev": "end", "quiescent": e["quiescent"]})
    return out
