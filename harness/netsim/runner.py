"""Run many simulator jobs over worker processes (fork: the overlay is already
active in the parent)."""
import multiprocessing as mp
import os
import traceback

_FN = None


def _call(job):
    try:
        return ("ok", _FN(job))
    except Exception:
        return ("err", traceback.format_exc())


def run_many(fn, jobs, procs=None):
    global _FN
    _FN = fn
    procs = procs or min(16, os.cpu_count() or 4)
    if len(jobs) < 4:
        res = [_call(j) for j in jobs]
    else:
        ctx = mp.get_context("fork")
        with ctx.Pool(procs) as pool:
            res = pool.map(_call, jobs, chunksize=max(1, len(jobs) // (procs * 8)))
    out = []
    for kind, v in res:
        if kind == "err":
            from ..overlay import MachineryError
            raise MachineryError("simulator job failed in the harness:\n" + v)
        out.append(v)
    return out
