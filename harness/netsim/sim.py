"""Deterministic two-endpoint simulator: two real QuicConnection objects, virtual
time, an in-memory network with per-datagram fates, an application script, the
independent observer on every emitted datagram.  Produces the raw run log
(DESIGN.md appendix A); projections to per-module traces are in project.py.

Everything the simulator reads from the connection objects beyond the public
API is listed in INTERNAL_READS (reported in evidence as trusted base)."""
import hashlib
import io
import os
import random

from . import observer as obs
from ..overlay import MachineryError

US = 1_000_000
CADDR0 = ("10.0.0.1", 1111)
SADDR = ("10.0.0.2", 4433)
TESTS = os.path.join(os.environ.get("VERIF_REPO", "/repo"), "tests")

INTERNAL_READS = ["_loss.congestion_window", "_loss.bytes_in_flight", "_close_at", "_state",
                  "_cryptos[epoch].recv.is_valid() / .recv.secret (which key generation the receiver holds)", "_host_cids", "_loss._rtt_smoothed/_rtt_variance/_rtt_initial/max_ack_delay (base PTO)", "_probe_pending",
                  "_handshake_complete", "_handshake_confirmed", "_network_paths[0].is_validated"]

DEFAULT_CFG = {"version": "v1", "cc": "reno", "suite": "", "alpn": ["hq"], "max_data": 1048576,
               "max_stream_data": 1048576, "mds": 1200, "idle": 60.0, "qlog": False, "keylog": True,
               "s_max_data": None, "s_max_stream_data": None, "max_streams": None, "datagram": None, "chain": False}


def byte(s, o):
    return (7 * s + 31 * o) % 251


def payload(s, o, n):
    return bytes(byte(s, o + i) for i in range(n))


def load_modules():
    import aioquic.quic.configuration as configuration
    import aioquic.quic.connection as connection
    import aioquic.quic.events as events
    import aioquic.quic.logger as logger
    import aioquic.quic.packet as packet
    import aioquic.tls as tls
    import logging
    logging.getLogger("quic").setLevel(logging.CRITICAL)
    return {"configuration": configuration, "connection": connection, "events": events,
            "logger": logger, "packet": packet, "tls": tls}


_SMALL = {}


def small_certificate(pad=0):
    """A small self-signed P-256 certificate for "localhost" (the whole server flight then fits one datagram);
    generated once per process.  pad > 0 (cfg "smallcert": <int> > 1): about `pad` more bytes, through additional DNS names -
    sweeps where the handshake flight ends in its datagram."""
    if pad and pad > 1:
        if pad not in _SMALL_PAD:
            _SMALL_PAD[pad] = _make_small(pad)
        return _SMALL_PAD[pad]
    if not _SMALL:
        _SMALL.update(_make_small(0))
    return _SMALL


_SMALL_PAD = {}


def _make_small(pad):
    if True:
        import datetime
        from cryptography import x509
        from cryptography.hazmat.primitives import hashes, serialization
        from cryptography.hazmat.primitives.asymmetric import ec
        key = ec.generate_private_key(ec.SECP256R1())
        name = x509.Name([x509.NameAttribute(x509.NameOID.COMMON_NAME, "localhost")])
        now = datetime.datetime.now(datetime.timezone.utc)
        cert = (x509.CertificateBuilder().subject_name(name).issuer_name(name).public_key(key.public_key())
                .serial_number(4711).not_valid_before(now - datetime.timedelta(days=1))
                .not_valid_after(now + datetime.timedelta(days=30))
                .add_extension(x509.SubjectAlternativeName(
                    [x509.DNSName("localhost")] + [x509.DNSName("p%02d.%s.example" % (i, "x" * 40)) for i in range(pad // 54)]
                    + ([x509.DNSName("q." + "y" * max(1, pad % 54 - 4))] if pad % 54 > 6 else [])), critical=False)
                .add_extension(x509.BasicConstraints(ca=True, path_length=None), critical=True)
                .sign(key, hashes.SHA256()))
        return dict(cert=cert, key=key, pem=cert.public_bytes(serialization.Encoding.PEM))


class SeededUrandom:
    def __init__(self, seed):
        self.r = random.Random(seed)

    def __call__(self, n):
        return bytes(self.r.getrandbits(8) for _ in range(n))


class Sim:
    HANDLES_RETRY = True             # cfg "retry" is played by Sim._retry_app (a subclass with its own Retry logic says False)

    def __init__(self, A, cfg=None, seed=0):
        self.A = A
        self.cfg = dict(DEFAULT_CFG)
        self.cfg.update(cfg or {})
        self.seed = seed
        self.tf = 0.0                    # virtual time, float seconds (exactly what the API is given)
        self.log = []
        self.seq = 0
        self.net = []                    # datagrams in flight: dict(id, src, dst, data, from_addr, pkts)
        self.dgid = 0
        self.caddr = CADDR0
        self.rebinds = 0
        self.eps = {}
        self.keylog = {"c": io.StringIO(), "s": io.StringIO()}
        self.qlog = {}
        self.obs = obs.Observer()
        self.cids = {}                   # bytes -> small int
        self.chal = {}
        self.known_streams = {"c": set(), "s": set()}
        self.terminated = {"c": False, "s": False}
        self.raised = []
        self.emitted = {}                # dgid -> parsed packets
        self.remembered = None           # resumed runs: the limits the client remembers from the priming connection
        self.retry = {"sent": 0, "odcid": None, "scid": None, "accepted": 0}
        if self.cfg.get("resume"):
            self._prime()
        if self.cfg.get("retry") and self.HANDLES_RETRY:
            self.obs.follow_retry = True
        self._urandom = os.urandom
        os.urandom = SeededUrandom(seed)
        try:
            self._make_client()
        except Exception:
            os.urandom = self._urandom
            raise
        if self.cfg.get("resume"):
            # (the ticket and the store are objects; the log carries what the client remembers instead)
            self.ev("cfg", cfg=dict({k: v for k, v in self.cfg.items() if k not in ("session_ticket", "ticket_store")},
                                    remembered=self.remembered))
        else:
            self.ev("cfg", cfg={k: v for k, v in self.cfg.items()})

    def close(self):
        os.urandom = self._urandom

    # ------------------------------------------------------------ construction
    def _versions(self):
        P = self.A["packet"].QuicProtocolVersion
        v = self.cfg["version"]
        if v == "v1":
            return [P.VERSION_1, P.VERSION_2], None
        if v == "v2":
            return [P.VERSION_2, P.VERSION_1], None
        if v == "v1->v2":            # compatible version negotiation: start with 1, prefer 2
            return [P.VERSION_2, P.VERSION_1], P.VERSION_1
        raise MachineryError("bad version " + v)

    def _base_config(self, is_client):
        C = self.A["configuration"].QuicConfiguration
        T = self.A["tls"]
        side = "c" if is_client else "s"
        # ("c_idle" / "s_idle" / "s_alpn": per-side overrides, absent = the common value)
        idle = self.cfg.get(side + "_idle") or self.cfg["idle"]
        alpn = self.cfg.get("s_alpn") if (side == "s" and self.cfg.get("s_alpn")) else self.cfg["alpn"]
        c = C(is_client=is_client, alpn_protocols=list(alpn),
              congestion_control_algorithm=self.cfg["cc"], idle_timeout=idle,
              max_datagram_size=self.cfg["mds"])
        md, msd = self.cfg["max_data"], self.cfg["max_stream_data"]
        if not is_client:
            md = self.cfg["s_max_data"] if self.cfg["s_max_data"] is not None else md
            msd = self.cfg["s_max_stream_data"] if self.cfg["s_max_stream_data"] is not None else msd
        c.max_data, c.max_stream_data = md, msd
        if self.cfg["datagram"]:
            c.max_datagram_frame_size = self.cfg["datagram"]
        if self.cfg["suite"]:
            c.cipher_suites = [getattr(T.CipherSuite, self.cfg["suite"])]
        sv, ov = self._versions()
        c.supported_versions = list(sv)
        if is_client:
            c.original_version = ov
        if self.cfg["keylog"]:
            c.secrets_log_file = self.keylog[side]
        if self.cfg["qlog"]:
            self.qlog[side] = self.A["logger"].QuicLogger()
            c.quic_logger = self.qlog[side]
        return c

    def _make_client(self):
        c = self._base_config(True)
        c.server_name = self.cfg.get("server_name") or "localhost"
        if self.cfg.get("smallcert"):
            c.load_verify_locations(cadata=small_certificate(self.cfg.get("smallcert"))["pem"])
        else:
            c.load_verify_locations(cafile=os.path.join(TESTS, "pycacert.pem"))
        if self.cfg.get("session_ticket") is not None:
            c.session_ticket = self.cfg["session_ticket"]
        self.tickets = []
        self.eps["c"] = self.A["connection"].QuicConnection(
            configuration=c, session_ticket_handler=self.tickets.append)
        self._stream_count_limit(self.eps["c"])
        self._keycap("c")

    def _prime(self):
        """cfg "resume": "accept" | "reject".  A priming connection (a fresh Sim with the same options, overridden by
        cfg "prime"; no Retry) runs to quiescence and the client keeps the last session ticket it was given; this
        run's client offers it (and may send 0-RTT data).  "accept": the server's store knows the ticket; "reject":
        it does not, so the server falls back to a full handshake and cannot open 0-RTT packets."""
        mode = self.cfg["resume"]
        if mode not in ("accept", "reject"):
            raise MachineryError("bad resume mode %r" % (mode,))
        pc = {k: v for k, v in self.cfg.items() if k not in ("resume", "retry", "prime", "session_ticket", "ticket_store")}
        pc.update(self.cfg.get("prime") or {})
        store = {}
        pc["ticket_store"] = store
        p = Sim(self.A, pc, seed=(self.seed ^ 0x5EED) & 0x3FFFFFFF)
        try:
            p.handshake()
            p.run_fair()
            tickets = list(p.tickets)
        finally:
            p.close()
        if not tickets or not store:
            raise MachineryError("the priming connection produced no session ticket")
        self.cfg["session_ticket"] = tickets[-1]
        self.cfg["ticket_store"] = store if mode == "accept" else {}
        pick = lambda k: pc["s_" + k] if pc.get("s_" + k) is not None else pc[k]     # noqa
        # what the priming *server* was configured with = what its transport parameters told the client
        self.remembered = {"max_stream_data": pick("max_stream_data"), "max_data": pick("max_data"),
                           "max_streams": pc.get("max_streams") or 128}

    def _make_server(self, odcid, retry_scid=None):
        c = self._base_config(False)
        cert = "ssl_cert_with_chain.pem" if self.cfg["chain"] else "ssl_cert.pem"
        if self.cfg.get("smallcert"):
            sc = small_certificate(self.cfg.get("smallcert"))
            c.certificate, c.certificate_chain, c.private_key = sc["cert"], [], sc["key"]
        else:
            c.load_cert_chain(os.path.join(TESTS, cert), os.path.join(TESTS, "ssl_key.pem"))
        kw = {}
        if self.cfg.get("ticket_store") is not None:
            store = self.cfg["ticket_store"]
            kw = {"session_ticket_fetcher": store.get, "session_ticket_handler": lambda t: store.__setitem__(t.ticket, t)}
        if retry_scid is not None:
            kw["retry_source_connection_id"] = retry_scid
        self.eps["s"] = self.A["connection"].QuicConnection(
            configuration=c, original_destination_connection_id=odcid, **kw)
        self._stream_count_limit(self.eps["s"])
        self._keycap("s")

    def _keycap(self, side):
        """cfg "keycap" (added for C20; off unless asked for, only meaningful with "keylog": False):
        the run itself has secrets_log_file=None; the harness captures the traffic secrets by wrapping
        the connection's TLS callback `_update_traffic_key` (an instance attribute that shadows the
        method before `_initialize` hands it to tls.Context) and writes them, in NSS key-log form, into
        the buffer `_feed_keys` reads for the observer.  The wrapper calls the original unchanged."""
        if not self.cfg.get("keycap") or self.cfg["keylog"]:
            return
        conn, out = self.eps[side], self.keylog[side]
        orig = conn._update_traffic_key
        T = self.A["tls"]
        names = {T.Epoch.ZERO_RTT: "EARLY_TRAFFIC_SECRET", T.Epoch.HANDSHAKE: "HANDSHAKE_TRAFFIC_SECRET",
                 T.Epoch.ONE_RTT: "TRAFFIC_SECRET_0"}

        def capture(direction, epoch, cipher_suite, secret):
            sender_is_client = (side == "c") == (direction == T.Direction.ENCRYPT)
            out.write("%s_%s %s %s\n" % ("CLIENT" if sender_is_client else "SERVER", names[epoch], "00", bytes(secret).hex()))
            return orig(direction, epoch, cipher_suite, secret)
        conn._update_traffic_key = capture

    def _stream_count_limit(self, conn):
        """aioquic has no configuration option for the stream-count limits it advertises (fixed 128);
        a small limit is set on the freshly created object before it serialises its transport
        parameters, to give its *peer* a small limit."""
        cl = (self.cfg.get("cid_limit") or {}).get("c" if conn._is_client else "s")
        if cl:                                     # cfg "cid_limit": {"c": n, "s": n} - the active_connection_id_limit to advertise
            conn._local_active_connection_id_limit = cl
        ms = self.cfg.get("max_streams")
        if ms:
            conn._local_max_streams_bidi.value = conn._local_max_streams_bidi.sent = ms
            conn._local_max_streams_uni.value = conn._local_max_streams_uni.sent = ms

    # ---------------------------------------------------------------- logging
    def ev(self, kind, **kw):
        self.seq += 1
        e = {"seq": self.seq, "t": self.now, "k": kind}
        e.update(kw)
        self.log.append(e)
        return e

    def cid(self, b):
        b = bytes(b)
        if b not in self.cids:
            self.cids[b] = len(self.cids) + 1
        return self.cids[b]

    def t(self):
        return self.tf

    @property
    def now(self):                       # integer µs for the log (TLC side)
        return int(round(self.tf * US))

    def addr_id(self, a):
        if a == SADDR:
            return 0
        return 1 + int(a[0].split(".")[-1]) - 1 if a[0].startswith("10.0.0.") else 99

    # --------------------------------------------------------------- stepping
    def _guard(self, ep, what, fn, *a, **kw):
        """Run an API call; an exception is recorded, not propagated (C05 judges it)."""
        try:
            return fn(*a, **kw), None
        except Exception as e:        # noqa
            import traceback
            tb = traceback.extract_tb(e.__traceback__)
            inner = next((f for f in reversed(tb) if "aioquic" in f.filename), tb[-1])
            r = "%s@%s" % (type(e).__name__, inner.name)
            self.raised.append((ep, what, r))
            return None, r

    def _after(self, ep):
        """events -> transmit -> timer, as QuicConnectionProtocol does after every call."""
        conn = self.eps[ep]
        E = self.A["events"]
        while True:
            e, r = self._guard(ep, "next_event", conn.next_event)
            if r:
                self.ev("ev", ep=ep, cls="RAISED", raised=r)
                break
            if e is None:
                break
            self._log_event(ep, e, E)
            # cfg "on_negotiated": {ep: [sid, n]} - the application reacts to ProtocolNegotiated inside its event handler, i.e.
            # before the transmit that follows (a server pushing 0.5-RTT data with its first flight)
            hook = (self.cfg.get("on_negotiated") or {}).get(ep)
            if hook and isinstance(e, E.ProtocolNegotiated):
                sid, n = hook
                _, r2 = self._guard(ep, "write", lambda: conn.send_stream_data(sid, payload(sid, 0, n), end_stream=False))
                self.ev("api", ep=ep, call="write", sid=sid, off=0, n=n, fin=False, raised=r2 or "")
        if self.terminated[ep]:
            return
        st0 = self._st(conn)
        out, r = self._guard(ep, "datagrams_to_send", conn.datagrams_to_send, now=self.t())
        ids = []
        for data, addr in out or []:
            self.dgid += 1
            ids.append(self.dgid)
            self._feed_keys()
            pkts = self.obs.parse_datagram(ep, data)
            self.emitted[self.dgid] = pkts
            dst = "s" if ep == "c" else "c"
            self.net.append({"id": self.dgid, "src": ep, "dst": dst, "data": data, "to": addr,
                             "from_addr": self.caddr if ep == "c" else SADDR, "pkts": pkts})
        self.ev("tx", ep=ep, dgs=[{"id": i, "len": len(self._dg(i)["data"]), "to": self.addr_id(self._dg(i)["to"])}
                                  for i in ids], raised=r or "", st0=st0, st=self._st(conn))
        for i in ids:
            d = self._dg(i)
            for j, p in enumerate(d["pkts"]):
                self.ev("pkt", ep=ep, dg=i, idx=j, dglen=len(d["data"]), to=self.addr_id(d["to"]), **self._pkt_fields(p))
        self._timer(ep)

    def _timer(self, ep):
        conn = self.eps[ep]
        v, r = self._guard(ep, "get_timer", conn.get_timer)
        self.ev("gt", ep=ep, value=-1 if v is None else int(round(v * US)), raised=r or "",
                idle=-1 if conn._close_at is None else int(round(conn._close_at * US)))
        return v

    def _dg(self, i):
        for d in self.net:
            if d["id"] == i:
                return d
        raise MachineryError("no datagram %d in flight" % i)

    def _st(self, conn):
        L = conn._loss
        return {"cwnd": int(L.congestion_window), "bif": int(L.bytes_in_flight),
                "probe": bool(conn._probe_pending), "state": conn._state.name,
                "hc": bool(conn._handshake_complete), "hcf": bool(conn._handshake_confirmed),
                "pto": int(round(self._base_pto(L) * US)),
                "validated": bool(conn._network_paths[0].is_validated) if conn._network_paths else False}

    @staticmethod
    def _base_pto(L):
        """RFC 9002 6.2.1 probe timeout without back-off, computed from the RTT estimator's
        fields (not through get_probe_timeout(), which is code under check)."""
        if not L._rtt_initialized:
            return 2 * L._rtt_initial
        return L._rtt_smoothed + max(4 * L._rtt_variance, 0.001) + L.max_ack_delay

    def _feed_keys(self):
        P = self.A["packet"].QuicProtocolVersion
        for ep in "cs":
            if ep in self.eps:
                txt = self.keylog[ep].getvalue()
                if txt:
                    v = self.eps[ep]._version or P.VERSION_1       # the version negotiated when the secret was installed
                    self.obs.feed_keylog(ep, txt, int(v))

    def _pkt_fields(self, p):
        f = {"type": p["type"], "ok": p["ok"], "len": p.get("len", 0), "space": p.get("space", "")}
        if p["type"] in ("dgram_padding", "garbage", "unparsable"):
            return f
        f.update({"ver": {obs.V1: 1, obs.V2: 2}.get(p.get("ver"), 0), "dcid": self.cid(p["dcid"]),
                  "scid": self.cid(p["scid"]) if p.get("scid") else 0})
        if p["type"] in ("vn", "retry") or not p["ok"]:
            return f
        f.update({"pn": p["pn"], "pnlen": p["pnlen"], "kphase": p["kphase"], "gen": p["gen"],
                  "ackel": p["ackel"], "inflight": p["inflight"], "reserved": p["reserved"],
                  "sha": p["sha"], "frames": [self._frame_fields(x) for x in p["frames"]]})
        return f

    def _frame_fields(self, x):
        x = dict(x)
        if x["t"] in ("stream", "crypto", "datagram", "new_token"):
            d = x.pop("data")
            if x["t"] == "stream":
                x["good"] = d == payload(x["sid"], x["off"], x["len"])
        elif x["t"] == "new_connection_id":
            x["cid"] = self.cid(x["cid"])
            x.pop("srt")
        elif x["t"] in ("path_challenge", "path_response"):
            b = bytes(x.pop("data"))
            x["id"] = self.chal.setdefault(b, len(self.chal) + 1)
        elif x["t"] == "connection_close":
            x["reason"] = bytes(x["reason"]).decode("utf8", "replace")[:80]
        return x

    def _log_event(self, ep, e, E):
        n = type(e).__name__
        d = {"ep": ep, "cls": n}
        if isinstance(e, E.StreamDataReceived):
            self.known_streams[ep].add(e.stream_id)
            d.update(sid=e.stream_id, data=list(e.data), end=bool(e.end_stream))
        elif isinstance(e, E.StreamReset):
            d.update(sid=e.stream_id, code=e.error_code)
        elif isinstance(e, E.StopSendingReceived):
            d.update(sid=e.stream_id, code=e.error_code)
        elif isinstance(e, E.ConnectionTerminated):
            d.update(code=e.error_code, ftype=-1 if e.frame_type is None else e.frame_type, reason=e.reason_phrase[:80])
            self.terminated[ep] = True
        elif isinstance(e, E.HandshakeCompleted):
            d.update(alpn=e.alpn_protocol or "", early=bool(e.early_data_accepted), resumed=bool(e.session_resumed))
        elif isinstance(e, E.ProtocolNegotiated):
            d.update(alpn=e.alpn_protocol or "")
        elif isinstance(e, E.PingAcknowledged):
            d.update(uid=e.uid)
        elif isinstance(e, (E.ConnectionIdIssued, E.ConnectionIdRetired)):
            d.update(cid=self.cid(e.connection_id))
        elif isinstance(e, E.DatagramFrameReceived):
            d.update(len=len(e.data))
        self.ev("ev", **d)

    # ------------------------------------------------------------- operations
    def connect(self):
        conn = self.eps["c"]
        _, r = self._guard("c", "connect", conn.connect, SADDR, now=self.t())
        self.ev("api", ep="c", call="connect", raised=r or "")
        self._after("c")

    def api(self, ep, call, *args):
        """Application call on a live endpoint."""
        conn = self.eps.get(ep)
        if conn is None or self.terminated[ep]:
            return False
        rec = {"ep": ep, "call": call}
        if call == "write":
            sid, off, n, fin = args
            rec.update(sid=sid, off=off, n=n, fin=fin)
            fn = lambda: conn.send_stream_data(sid, payload(sid, off, n), end_stream=fin)   # noqa
        elif call == "reset":
            rec.update(sid=args[0], code=args[1])
            fn = lambda: conn.reset_stream(args[0], args[1])    # noqa
        elif call == "stop":
            rec.update(sid=args[0], code=args[1])
            fn = lambda: conn.stop_stream(args[0], args[1])     # noqa
        elif call == "ping":
            rec.update(uid=args[0])
            fn = lambda: conn.send_ping(args[0])                # noqa
        elif call == "keyupdate":
            fn = conn.request_key_update
        elif call == "changecid":
            fn = conn.change_connection_id
        elif call == "close":
            rec.update(code=args[0])
            fn = lambda: conn.close(error_code=args[0], reason_phrase="bye")   # noqa
        elif call == "dgram":
            rec.update(n=args[0])
            fn = lambda: conn.send_datagram_frame(bytes(args[0]))               # noqa
        else:
            raise MachineryError("unknown api call " + call)
        _, r = self._guard(ep, call, fn)
        rec["raised"] = r or ""
        self.ev("api", **rec)
        self._after(ep)
        return True

    def rebind(self):
        self.rebinds += 1
        self.caddr = ("10.0.0.%d" % (10 + self.rebinds), 1111 + self.rebinds)
        self.ev("net", fate="rebind", dg=0, addr=self.addr_id(self.caddr))

    def drop(self, idx):
        d = self.net.pop(idx)
        self.ev("net", fate="drop", dg=d["id"], src=d["src"])

    def dup(self, idx):
        d = dict(self.net[idx])
        self.net.append(d)
        self.ev("net", fate="dup", dg=d["id"], src=d["src"])

    def deliver(self, idx, data=None, from_addr=None, keep=False, note="deliver"):
        d = self.net[idx] if keep else self.net.pop(idx)
        dst = d["dst"]
        raw = d["data"] if data is None else data
        if d["src"] == "c":
            addr = from_addr or self.caddr      # a rebound client: everything still in flight arrives from the new address
        else:
            addr = SADDR
        if dst == "s" and self.HANDLES_RETRY and self.cfg.get("retry") and self._retry_app(d, raw, addr):
            return
        if dst == "s" and "s" not in self.eps:
            pk = d["pkts"][0] if d["pkts"] else None
            if not pk or pk["type"] != "initial":
                self.ev("net", fate="noserver", dg=d["id"], src=d["src"])
                return
            self._make_server(pk["dcid"])
        self.ev("net", fate=note, dg=d["id"], src=d["src"], addr=self.addr_id(addr))
        conn = self.eps[dst]
        if self.terminated[dst]:
            return
        arrs = []
        if data is None:
            E = self.A["tls"].Epoch
            for j, p in enumerate(d["pkts"]):
                if p.get("ok") and p["type"] in ("initial", "handshake", "0rtt", "1rtt"):
                    ep_ = {"initial": E.INITIAL, "handshake": E.HANDSHAKE, "0rtt": E.ZERO_RTT, "1rtt": E.ONE_RTT}[p["type"]]
                    cr = conn._cryptos.get(ep_) if p["type"] != "initial" else conn._cryptos_initial.get(p["ver"])
                    can = bool(cr and cr.recv.is_valid()) and conn._state.name not in ("CLOSING", "DRAINING", "TERMINATED")
                    if can and p["type"] == "1rtt":
                        # key phase: the receiver opens a packet of its current receive generation or of the next one
                        gens = self.obs.dir[d["src"]].app
                        gen_of = lambda sec: next((g for g, ks in enumerate(gens) if any(k.secret == sec for k in ks)), None)
                        rg = gen_of(cr.recv.secret)
                        # after a key update the receiver itself initiated it keeps the previous read keys until the peer
                        # uses the new ones (RFC 9001 6.1; aioquic since the repair 0120d2f): that generation opens too
                        prev = getattr(cr, "_recv_previous", None)
                        pg = gen_of(prev.secret) if prev is not None else None
                        if rg is None and pg is not None:
                            rg = pg + 1            # the observer has not seen the sender use that generation yet
                        can = rg is not None and (p["gen"] in (rg, rg + 1) or (pg is not None and p["gen"] == pg))
                    if can and p["type"] == "0rtt" and p.get("zver") is not None and getattr(cr.recv, "version", None) is not None \
                            and int(cr.recv.version) != int(p["zver"]):
                        # after compatible version negotiation aioquic's client keeps sealing 0-RTT packets with the keys of the
                        # original version's labels (under the new version's header); a receiver whose 0-RTT keys follow the new
                        # version cannot open them (observation recorded in DESIGN.md section 10, outside C12)
                        can = False
                    if can and p["type"] == "0rtt" and self.obs.follow_retry:
                        # Retry runs: a 0-RTT packet from before the Retry is protected with the early secret of the first
                        # ClientHello; the server derived its key from the second one
                        can = cr.recv.secret == p.get("zsecret")
                    if dst == "c" or p["type"] == "handshake":      # receive_datagram drops these when the CID is not (any longer) one of its own
                        can = can and any(bytes(p["dcid"]) == h.cid for h in conn._host_cids)
                    a = self.ev("arr", ep=dst, dg=d["id"], idx=j, space=p["space"], type=p["type"], pn=p["pn"],
                                ackel=p["ackel"], haskeys=can, maybe=can, hc=bool(conn._handshake_complete),
                                addr=self.addr_id(addr))
                    if not can:
                        arrs.append((a, p, ep_))
        _, r = self._guard(dst, "receive_datagram", conn.receive_datagram, raw, addr, now=self.t())
        for a, p, ep_ in arrs:
            # keys that were missing before the call may have been installed by an earlier packet of the same
            # datagram: such a packet may or may not have been processed
            cr = conn._cryptos.get(ep_) if p["type"] != "initial" else conn._cryptos_initial.get(p["ver"])
            a["maybe"] = bool(cr and cr.recv.is_valid())
        self.ev("rx", ep=dst, dg=d["id"], len=len(raw), addr=self.addr_id(addr), raised=r or "",
                forged=data is not None)
        self._after(dst)

    # -- the server application of a Retry run (cfg "retry": True) -------------------------------------
    @staticmethod
    def _retry_scid(odcid):
        return hashlib.sha1(b"zrtt-retry-scid" + bytes(odcid)).digest()[:8]

    def _retry_token(self, addr, odcid):
        return b"zrtt" + bytes([self.addr_id(addr)]) + bytes(odcid)

    def _retry_app(self, d, raw, addr):
        """What aioquic/asyncio/server.py does with a datagram that belongs to no connection, when `retry` is on:
        an Initial (datagram of at least 1200 bytes) without a token is answered by a Retry packet carrying a token
        bound to the source address and the original destination CID; an Initial with a valid token creates the
        connection (original_destination_connection_id and retry_source_connection_id from the token); an invalid
        token is dropped.  Returns True when the datagram was consumed here.  The Retry packet comes from the
        observer's independent encoder."""
        h = obs.long_header(raw)
        have = "s" in self.eps
        if have:
            # routing by destination CID: the Retry's source CID and the connection's own CIDs lead to the connection
            if h is None or h["type"] != "initial":
                return False
            dc = bytes(h["dcid"])
            if dc == self.retry["scid"] or any(dc == c.cid for c in self.eps["s"]._host_cids):
                return False
        if h is None or h["type"] != "initial" or len(raw) < 1200 or h["ver"] not in (obs.V1, obs.V2):
            self.ev("net", fate="noserver", dg=d["id"], src=d["src"])
            return True
        if not h["token"]:
            self.ev("app", ep="s", what="rx", dg=d["id"], addr=self.addr_id(addr), len=len(raw))
            odcid = bytes(h["dcid"])
            scid = self._retry_scid(odcid)
            pkt = obs.retry_packet(h["ver"], bytes(h["scid"]), scid, odcid, self._retry_token(addr, odcid))
            self.retry["sent"] += 1
            self.dgid += 1
            pkts = self.obs.parse_datagram("s", pkt)
            self.emitted[self.dgid] = pkts
            self.ev("net", fate="app-retry", dg=d["id"], src=d["src"], addr=self.addr_id(addr))
            self.ev("app", ep="s", what="retry", dg=self.dgid, to=self.addr_id(addr), len=len(pkt))
            self.ev("pkt", ep="s", dg=self.dgid, idx=0, dglen=len(pkt), to=self.addr_id(addr), **self._pkt_fields(pkts[0]))
            if addr == self.caddr:            # a Retry sent to a spoofed source address reaches nobody
                self.net.append({"id": self.dgid, "src": "s", "dst": "c", "data": pkt, "to": addr,
                                 "from_addr": SADDR, "pkts": pkts})
            return True
        tok = bytes(h["token"])
        odcid = tok[5:]
        if have or tok != self._retry_token(addr, odcid) or bytes(h["dcid"]) != self._retry_scid(odcid):
            # (a valid token on an unknown destination CID would start a second connection: not modelled, dropped)
            self.ev("app", ep="s", what="rx", dg=d["id"], addr=self.addr_id(addr), len=len(raw))
            self.ev("net", fate="app-bad-token", dg=d["id"], src=d["src"], addr=self.addr_id(addr))
            return True
        # (the datagram goes on to the connection: its "rx" line counts its bytes)
        self.retry.update(odcid=odcid, scid=self._retry_scid(odcid))
        self.retry["accepted"] += 1
        self.ev("app", ep="s", what="token-ok", dg=d["id"], addr=self.addr_id(addr), len=len(raw))
        self._make_server(odcid, retry_scid=self.retry["scid"])
        return False

    def inject(self, dst, raw, addr, tag):
        """A datagram that no endpoint emitted (hostile / spoofed)."""
        if dst == "s" and "s" not in self.eps:
            raise MachineryError("inject before the server exists")
        conn = self.eps[dst]
        if self.terminated[dst]:
            return
        _, r = self._guard(dst, "receive_datagram", conn.receive_datagram, raw, addr, now=self.t())
        self.ev("rx", ep=dst, dg=0, len=len(raw), addr=self.addr_id(addr), raised=r or "", forged=True, tag=tag)
        self._after(dst)

    def timer_value(self, ep):
        conn = self.eps.get(ep)
        if conn is None or self.terminated[ep]:
            return None
        v, r = self._guard(ep, "get_timer", conn.get_timer)
        return None if v is None else int(round(v * US))

    def fire(self, ep, late=0):
        """Advance virtual time to ep's deadline (+late µs) and fire its timer."""
        due = self.timer_value(ep)
        if due is None:
            return False
        conn = self.eps[ep]
        # the caller contract: handle_timer(now) with now >= the float get_timer() returned
        # (+1 µs: a real event loop calls back slightly after the deadline; firing at the exact
        # float makes `sent_time <= now - loss_delay` a matter of rounding)
        self.tf = max(self.tf, conn.get_timer() + (late + 1) / US)
        _, r = self._guard(ep, "handle_timer", conn.handle_timer, now=self.t())
        self.ev("timer", ep=ep, due=due, raised=r or "")
        self._after(ep)
        return True

    def tick(self, dt):
        self.tf += dt / US

    # ------------------------------------------------------------ fair phase
    def quiescent(self):
        if self.net:
            return False
        for ep, conn in self.eps.items():
            if self.terminated[ep]:
                continue
            v = self.timer_value(ep)
            if v is None:
                continue
            idle = None if conn._close_at is None else int(round(conn._close_at * US))
            if idle is None or v < idle:
                return False
        return True

    def run_fair(self, max_steps=4000, until=None):
        """Deliver everything in order, fire timers on time, until quiescence
        (nothing in flight and every live endpoint's next deadline is its idle /
        closing deadline).  Returns True when quiescent."""
        self.ev("net", fate="fair", dg=0)
        # An endpoint whose timer fired without any effect (deadline unchanged, nothing sent) would be
        # called back again at once by a real event loop; meanwhile the rest of the world moves on.
        # It is skipped until something is delivered to it or its deadline changes.
        stalled = {}
        for _ in range(max_steps):
            if until and until():
                return True
            if self.net:
                stalled.pop(self.net[0]["dst"], None)
                self.deliver(0)
                continue
            if self.quiescent():
                return True
            best = None
            for ep in self.eps:
                v = self.timer_value(ep)
                if v is None or self.terminated[ep] or stalled.get(ep) == v:
                    continue
                if best is None or v < best[0]:
                    best = (v, ep)
            if best is None:
                return not stalled
            n0 = self.dgid
            self.fire(best[1])
            if self.dgid == n0 and self.timer_value(best[1]) == best[0]:
                stalled[best[1]] = best[0]
                self.ev("note", what="timer-without-effect", ep=best[1], due=best[0])
        return False

    def run_closing(self, max_steps=200):
        """Fire the timers of endpoints that are closing or draining until they report termination."""
        for _ in range(max_steps):
            todo = [ep for ep, c in self.eps.items()
                    if not self.terminated[ep] and c._state.name in ("CLOSING", "DRAINING")]
            if not todo:
                return True
            if not self.fire(todo[0]):
                return False
        return False

    def blackout(self, max_steps=400):
        """Total blackout: everything in flight is lost, timers fire on time, until both endpoints
        have reported termination (idle timeout)."""
        for _ in range(max_steps):
            while self.net:
                self.drop(0)
            best = None
            for ep in self.eps:
                v = self.timer_value(ep)
                if v is not None and not self.terminated[ep] and (best is None or v < best[0]):
                    best = (v, ep)
            if best is None:
                return True
            self.fire(best[1])
        return False

    def final_poll(self):
        """After the run: anything still queued for the application is an event too."""
        E = self.A["events"]
        for ep, conn in self.eps.items():
            for _ in range(50):
                e, r = self._guard(ep, "next_event", conn.next_event)
                if e is None:
                    break
                self._log_event(ep, e, E)

    def handshake(self):
        self.connect()
        ok = self.run_fair(until=lambda: all(ep in self.eps and self.eps[ep]._handshake_confirmed for ep in "cs") and not self.net)
        return ok

    def digest(self):
        return hashlib.sha1(repr([(e["k"], e.get("ep"), e.get("call"), e.get("fate")) for e in self.log]).encode()).hexdigest()[:12]
