"""Independent observer of the wire: RFC 9001 / RFC 9369 packet un-protection
and RFC 9000 frame parsing, written from the RFCs.  It shares no code with
aioquic (crypto.py, packet.py, _crypto.c, buffer).  Primitives: hashlib/hmac
(HKDF) and `cryptography` (AES-GCM, ChaCha20-Poly1305, AES-ECB, ChaCha20).

Keys come only from the TLS key log each endpoint writes
(QuicConfiguration.secrets_log_file) and from the Initial salts.
"""
import hashlib
import hmac
import struct

from cryptography.hazmat.primitives.ciphers import Cipher, algorithms, modes
from cryptography.hazmat.primitives.ciphers.aead import AESGCM, ChaCha20Poly1305

V1 = 0x00000001
V2 = 0x6B3343CF
SALT = {V1: bytes.fromhex("38762cf7f55934b34d179ae6a4c80cadccbb7f0a"),
        V2: bytes.fromhex("0dede3def700a6db819381be6e269dcbf9bd2ed9")}
LBL = {V1: (b"quic key", b"quic iv", b"quic hp", b"quic ku"),
       V2: (b"quicv2 key", b"quicv2 iv", b"quicv2 hp", b"quicv2 ku")}
# long header type bits -> name (RFC 9000 17.2, RFC 9369 3.2)
LONG_TYPES = {V1: {0: "initial", 1: "0rtt", 2: "handshake", 3: "retry"},
              V2: {1: "initial", 2: "0rtt", 3: "handshake", 0: "retry"}}
RETRY_KEY = {V1: bytes.fromhex("be0c690b9f66575a1d766b54e368c84e"),
             V2: bytes.fromhex("8fb4b01b56ac48e260fbcbcead7ccc92")}
RETRY_NONCE = {V1: bytes.fromhex("461599d35d632bf2239825bb"),
               V2: bytes.fromhex("d86969bc2d7c6d9990efb04a")}
SPACE_OF = {"initial": "i", "handshake": "h", "0rtt": "a", "1rtt": "a"}


def hkdf_extract(h, salt, ikm):
    return hmac.new(salt, ikm, h).digest()


def hkdf_expand(h, prk, info, length):
    out, t, i = b"", b"", 1
    while len(out) < length:
        t = hmac.new(prk, t + info + bytes([i]), h).digest()
        out += t
        i += 1
    return out[:length]


def expand_label(h, secret, label, length):
    full = b"tls13 " + label
    info = struct.pack(">H", length) + bytes([len(full)]) + full + b"\x00"
    return hkdf_expand(h, secret, info, length)


class Keys:
    """Packet protection keys for one direction and one epoch/generation."""

    def __init__(self, secret, version, suite):
        # suite: "aes128", "aes256", "chacha"
        self.secret, self.version, self.suite = secret, version, suite
        self.h = hashlib.sha384 if suite == "aes256" else hashlib.sha256
        klen = 16 if suite == "aes128" else 32
        k, i, p, _ = LBL[version]
        self.key = expand_label(self.h, secret, k, klen)
        self.iv = expand_label(self.h, secret, i, 12)
        self.hp = expand_label(self.h, secret, p, klen)

    def mask(self, sample):
        if self.suite == "chacha":
            c = Cipher(algorithms.ChaCha20(self.hp, sample), mode=None).encryptor()
            return c.update(b"\x00" * 5)
        c = Cipher(algorithms.AES(self.hp), modes.ECB()).encryptor()
        return c.update(sample)[:5]

    def _aead(self):
        return ChaCha20Poly1305(self.key) if self.suite == "chacha" else AESGCM(self.key)

    def nonce(self, pn):
        return bytes(a ^ b for a, b in zip(self.iv, pn.to_bytes(12, "big")))

    def open(self, header, pn, ciphertext):
        try:
            return self._aead().decrypt(self.nonce(pn), ciphertext, header)
        except Exception:
            return None

    def seal(self, header, pn, plaintext):
        return self._aead().encrypt(self.nonce(pn), plaintext, header)

    def next_generation(self):
        ku = LBL[self.version][3]
        return Keys(expand_label(self.h, self.secret, ku, self.h().digest_size), self.version, self.suite)


def initial_keys(version, dcid, from_client):
    init = hkdf_extract(hashlib.sha256, SALT[version], dcid)
    sec = expand_label(hashlib.sha256, init, b"client in" if from_client else b"server in", 32)
    return Keys(sec, version, "aes128")


def decode_pn(truncated, nbits, expected):
    """RFC 9000 appendix A.3."""
    win = 1 << nbits
    hwin = win // 2
    mask = win - 1
    cand = (expected & ~mask) | truncated
    if cand <= expected - hwin and cand < (1 << 62) - win:
        return cand + win
    if cand > expected + hwin and cand >= win:
        return cand - win
    return cand


class Rd:
    def __init__(self, b, pos=0):
        self.b, self.p = b, pos

    def left(self):
        return len(self.b) - self.p

    def u8(self):
        if self.p >= len(self.b):
            raise IndexError
        v = self.b[self.p]
        self.p += 1
        return v

    def take(self, n):
        if n < 0 or self.p + n > len(self.b):
            raise IndexError
        v = self.b[self.p:self.p + n]
        self.p += n
        return v

    def var(self):
        f = self.u8()
        n = 1 << (f >> 6)
        v = f & 0x3F
        for _ in range(n - 1):
            v = (v << 8) | self.u8()
        return v


ACKEL_EXEMPT = {"padding", "ack", "connection_close"}
NOT_INFLIGHT_ONLY = {"ack", "connection_close"}


def parse_frames(payload):
    """RFC 9000 section 19 (+ RFC 9221 DATAGRAM).  STREAM/CRYPTO/DATAGRAM
    payloads are returned as offset/length (+ the bytes under "data")."""
    r = Rd(payload)
    out = []
    while r.left():
        t = r.var()
        if t == 0x00:
            n = 1
            while r.left() and r.b[r.p] == 0:
                r.p += 1
                n += 1
            out.append({"t": "padding", "n": n})
        elif t == 0x01:
            out.append({"t": "ping"})
        elif t in (0x02, 0x03):
            largest, delay, cnt, first = r.var(), r.var(), r.var(), r.var()
            ranges = [[largest - first, largest]]
            lo = largest - first
            for _ in range(cnt):
                gap, ln = r.var(), r.var()
                hi = lo - gap - 2
                lo = hi - ln
                ranges.append([lo, hi])
            f = {"t": "ack", "largest": largest, "delay": delay, "ranges": ranges}
            if t == 0x03:
                f["ecn"] = [r.var(), r.var(), r.var()]
            out.append(f)
        elif t == 0x04:
            out.append({"t": "reset_stream", "sid": r.var(), "code": r.var(), "final": r.var()})
        elif t == 0x05:
            out.append({"t": "stop_sending", "sid": r.var(), "code": r.var()})
        elif t == 0x06:
            off, ln = r.var(), r.var()
            out.append({"t": "crypto", "off": off, "len": ln, "data": r.take(ln)})
        elif t == 0x07:
            ln = r.var()
            out.append({"t": "new_token", "len": ln, "data": r.take(ln)})
        elif 0x08 <= t <= 0x0F:
            sid = r.var()
            off = r.var() if t & 0x04 else 0
            ln = r.var() if t & 0x02 else r.left()
            out.append({"t": "stream", "sid": sid, "off": off, "len": ln, "fin": bool(t & 1), "data": r.take(ln)})
        elif t == 0x10:
            out.append({"t": "max_data", "max": r.var()})
        elif t == 0x11:
            out.append({"t": "max_stream_data", "sid": r.var(), "max": r.var()})
        elif t in (0x12, 0x13):
            out.append({"t": "max_streams", "uni": t == 0x13, "max": r.var()})
        elif t == 0x14:
            out.append({"t": "data_blocked", "max": r.var()})
        elif t == 0x15:
            out.append({"t": "stream_data_blocked", "sid": r.var(), "max": r.var()})
        elif t in (0x16, 0x17):
            out.append({"t": "streams_blocked", "uni": t == 0x17, "max": r.var()})
        elif t == 0x18:
            seq, rpt, ln = r.var(), r.var(), r.u8()
            out.append({"t": "new_connection_id", "seq": seq, "rpt": rpt, "cid": r.take(ln), "srt": r.take(16)})
        elif t == 0x19:
            out.append({"t": "retire_connection_id", "seq": r.var()})
        elif t == 0x1A:
            out.append({"t": "path_challenge", "data": r.take(8)})
        elif t == 0x1B:
            out.append({"t": "path_response", "data": r.take(8)})
        elif t in (0x1C, 0x1D):
            code = r.var()
            ft = r.var() if t == 0x1C else -1
            ln = r.var()
            out.append({"t": "connection_close", "app": t == 0x1D, "code": code, "ftype": ft, "reason": r.take(ln)})
        elif t == 0x1E:
            out.append({"t": "handshake_done"})
        elif t in (0x30, 0x31):
            ln = r.var() if t == 0x31 else r.left()
            out.append({"t": "datagram", "len": ln, "data": r.take(ln)})
        else:
            raise ValueError("unknown frame type 0x%x" % t)
    return out


def ack_eliciting(frames):
    return any(f["t"] not in ACKEL_EXEMPT for f in frames)


def in_flight(frames):
    # RFC 9002 2: ack-eliciting packets or packets containing PADDING
    return any(f["t"] not in NOT_INFLIGHT_ONLY for f in frames)


class Direction:
    """Keys and packet-number tracking for packets *emitted* by one endpoint."""

    def __init__(self, from_client):
        self.from_client = from_client
        self.hs = None            # Keys
        self.zero = None
        self.zero_all = []        # every 0-RTT key seen (a client that starts afresh after a Retry derives a new one)
        self.app = []             # generations of 1-RTT keys
        self.gen = 0
        self.largest = {"i": -1, "h": -1, "a": -1}


class Observer:
    def __init__(self, cid_len=8):
        self.cid_len = cid_len
        self.dir = {"c": Direction(True), "s": Direction(False)}
        self.initial_dcid = None          # DCID of the client's first Initial (after Retry: the retry SCID)
        self.secrets_seen = set()
        self.secret_lines = []            # (ep, label, client_random, secret hex)
        self.follow_retry = False         # set by the simulator in Retry runs: the client's Initial (and 0-RTT) keys change

    # -- key material ------------------------------------------------------
    def feed_keylog(self, ep, text, version):
        """text: complete contents of endpoint ep's key log so far."""
        for line in text.splitlines():
            parts = line.split()
            if len(parts) != 3 or (ep, line) in self.secrets_seen:
                continue
            self.secrets_seen.add((ep, line))
            label, crandom, sec = parts
            self.secret_lines.append((ep, label, crandom, sec))
            secret = bytes.fromhex(sec)
            who = "c" if label.startswith("CLIENT") else "s"
            d = self.dir[who]
            cands = ["aes256"] if len(secret) == 48 else ["aes128", "chacha"]
            ks = [Keys(secret, version, s) for s in cands]
            if "HANDSHAKE" in label:
                d.hs = d.hs or ks
            elif "EARLY" in label:
                d.zero = d.zero or ks
                d.zero_all = d.zero_all + ks
            elif "TRAFFIC_SECRET_0" in label:
                if not d.app:
                    d.app = [ks]

    # -- parsing -----------------------------------------------------------
    def parse_datagram(self, ep, data):
        """Un-protect every packet of a datagram emitted by endpoint ep.
        Returns a list of packet dicts; a packet the observer cannot open has
        ok=False (and ends the walk: its length cannot be trusted only for
        short headers)."""
        d = self.dir[ep]
        out = []
        pos = 0
        while pos < len(data):
            first = data[pos]
            if first == 0 and pos > 0:
                # datagram padding after the last packet is not a packet
                if any(data[pos:]):
                    out.append({"type": "garbage", "ok": False, "len": len(data) - pos})
                else:
                    out.append({"type": "dgram_padding", "ok": True, "len": len(data) - pos})
                break
            try:
                pkt, pos = self._packet(d, data, pos)
            except (IndexError, KeyError, ValueError) as e:
                out.append({"type": "unparsable", "ok": False, "err": repr(e), "len": len(data) - pos})
                break
            out.append(pkt)
        return out

    def _packet(self, d, data, start):
        r = Rd(data, start)
        first = r.u8()
        if first & 0x80:
            version = struct.unpack(">I", r.take(4))[0]
            dcid = r.take(r.u8())
            scid = r.take(r.u8())
            if version == 0:
                vs = []
                while r.left() >= 4:
                    vs.append(struct.unpack(">I", r.take(4))[0])
                return ({"type": "vn", "ok": True, "dcid": dcid, "scid": scid, "versions": vs,
                         "len": len(data) - start, "space": ""}, len(data))
            ptype = LONG_TYPES[version][(first >> 4) & 3]
            if ptype == "retry":
                rest = data[r.p:]
                token, tag = rest[:-16], rest[-16:]
                return ({"type": "retry", "ok": True, "ver": version, "dcid": dcid, "scid": scid,
                         "token": token, "tag": tag, "len": len(data) - start, "space": "",
                         "raw": data[start:]}, len(data))
            token = b""
            if ptype == "initial":
                token = r.take(r.var())
            length = r.var()
            pn_off = r.p
            end = pn_off + length
            if end > len(data):
                raise ValueError("length beyond datagram")
            if ptype == "initial":
                if d.from_client and self.initial_dcid is None:
                    self.initial_dcid = dcid
                cands = [initial_keys(version, self.initial_dcid, d.from_client)] if self.initial_dcid else []
                if self.follow_retry and d.from_client and self.initial_dcid is not None and bytes(dcid) != bytes(self.initial_dcid):
                    # after a Retry the client protects its Initial packets with keys derived from the Retry's source CID,
                    # which is the destination CID of the packet (RFC 9001 5.2)
                    cands.append(initial_keys(version, dcid, True))
            elif ptype == "handshake":
                cands = [k for k in (d.hs or []) if k.version == version] or self._rekey(d.hs, version)
            else:
                # (a client that starts afresh after a Retry derives a second early secret: every one seen is a candidate)
                zk = d.zero_all if self.follow_retry else (d.zero or [])
                cands = [k for k in zk if k.version == version] or self._rekey(zk, version)
                # aioquic keeps the 0-RTT keys it derived under the original version's labels when it moves on to the
                # version negotiated compatibly and then writes that version into the header: also try the keys as fed
                cands = cands + [k for k in zk if k.version != version]
            pkt = {"type": ptype, "ver": version, "dcid": dcid, "scid": scid, "token": token}
            mask_bits = 0x0F
        else:
            dcid = r.take(self.cid_len)
            pn_off = r.p
            end = len(data)
            ptype = "1rtt"
            pkt = {"type": ptype, "ver": -1, "dcid": dcid, "scid": b"", "token": b""}
            cands = None
            mask_bits = 0x1F
        space = SPACE_OF[ptype]
        pkt.update({"space": space, "len": end - start, "ok": False, "start": start})
        sample = data[pn_off + 4:pn_off + 20]
        if len(sample) < 16:
            raise ValueError("packet too short to sample")
        expected = d.largest[space] + 1

        def attempt(keys):
            m = keys.mask(sample)
            f0 = first ^ (m[0] & mask_bits)
            pnlen = (f0 & 3) + 1
            pnb = bytes(a ^ b for a, b in zip(data[pn_off:pn_off + pnlen], m[1:1 + pnlen]))
            pn = decode_pn(int.from_bytes(pnb, "big"), 8 * pnlen, expected)
            header = bytes([f0]) + data[start + 1:pn_off] + pnb
            return f0, pnlen, pn, header

        if ptype == "1rtt":
            if not d.app:
                return pkt, end
            for suite_idx, k0 in enumerate(d.app[0]):
                f0, pnlen, pn, header = attempt(k0)      # hp key never changes
                phase = (f0 >> 2) & 1
                g = d.gen if phase == d.gen % 2 else d.gen + 1
                while len(d.app) <= g:
                    d.app.append([k.next_generation() for k in d.app[-1]])
                plain = d.app[g][suite_idx].open(header, pn, data[pn_off + pnlen:end])
                if plain is not None:
                    if len(d.app[0]) > 1:
                        d.app = [[gen[suite_idx]] for gen in d.app]
                    d.gen = g
                    pkt.update({"kphase": phase, "gen": g, "spin": (f0 >> 5) & 1, "reserved": f0 & 0x18})
                    break
            else:
                return pkt, end
        else:
            plain = None
            for k in cands or []:
                f0, pnlen, pn, header = attempt(k)
                plain = k.open(header, pn, data[pn_off + pnlen:end])
                if plain is not None:
                    pkt.update({"kphase": -1, "gen": 0, "reserved": f0 & 0x0C})
                    # settle the suite
                    if ptype == "handshake":
                        d.hs = [k]
                    elif ptype == "0rtt" and not self.follow_retry:
                        d.zero = [k]
                    if ptype == "0rtt":
                        pkt["zsecret"] = k.secret          # which early secret protects it (two exist after a Retry)
                        pkt["zver"] = k.version            # ... and the version whose labels derived the key that opened it
                    elif ptype == "initial" and self.follow_retry and k is not cands[0]:
                        self.initial_dcid = dcid
                    break
            if plain is None:
                return pkt, end
        frames = parse_frames(plain)
        if pn > d.largest[space]:
            d.largest[space] = pn
        pkt.update({"ok": True, "pn": pn, "pnlen": pnlen, "frames": frames, "header": header,
                    "plain": plain, "ackel": ack_eliciting(frames), "inflight": in_flight(frames),
                    "sha": hashlib.sha256(plain).hexdigest()[:16]})
        return pkt, end

    @staticmethod
    def _rekey(keys, version):
        # compatible version negotiation: the same secret protected under the other version's labels
        return [Keys(k.secret, version, k.suite) for k in (keys or [])]

    def retry_tag_ok(self, pkt, odcid):
        pseudo = bytes([len(odcid)]) + odcid + pkt["raw"][:-16]
        v = pkt["ver"]
        want = AESGCM(RETRY_KEY[v]).encrypt(RETRY_NONCE[v], b"", pseudo)
        return want == pkt["tag"]


def long_header(data):
    """The invariant fields of a long-header packet at the start of a datagram (RFC 8999, RFC 9000 17.2), as the
    server application reads them before a connection exists; None when the bytes are not such a header."""
    try:
        r = Rd(data)
        first = r.u8()
        if not first & 0x80:
            return None
        version = struct.unpack(">I", r.take(4))[0]
        dcid = r.take(r.u8())
        scid = r.take(r.u8())
        if version not in LONG_TYPES:
            return {"type": "vn" if version == 0 else "unknown", "ver": version, "dcid": dcid, "scid": scid, "token": b""}
        ptype = LONG_TYPES[version][(first >> 4) & 3]
        token = r.take(r.var()) if ptype == "initial" else b""
        return {"type": ptype, "ver": version, "dcid": dcid, "scid": scid, "token": token}
    except IndexError:
        return None


def retry_packet(version, dcid, scid, odcid, token):
    """RFC 9000 17.2.5, RFC 9001 5.8 (RFC 9369 3.3.3 for version 2)."""
    tbits = {v: k for k, v in LONG_TYPES[version].items()}["retry"]
    head = (bytes([0xC0 | (tbits << 4) | 0x05]) + struct.pack(">I", version) + bytes([len(dcid)]) + dcid
            + bytes([len(scid)]) + scid + token)
    pseudo = bytes([len(odcid)]) + odcid + head
    return head + AESGCM(RETRY_KEY[version]).encrypt(RETRY_NONCE[version], b"", pseudo)


# ---------------------------------------------------------------- encryptor
def enc_var(v, size=None):
    """QUIC variable-length integer (RFC 9000 section 16); size forces a longer encoding."""
    if size is None:
        size = 1 if v < 64 else 2 if v < 16384 else 4 if v < (1 << 30) else 8
    prefix = {1: 0, 2: 1, 4: 2, 8: 3}[size]
    return ((prefix << (8 * size - 2)) | v).to_bytes(size, "big")


def build_packet(keys, ptype, version, dcid, scid, pn, payload, pnlen=None, token=b"", key_phase=0,
                 reserved=0, fixed=1):
    """Protect one packet (RFC 9001 section 5): returns the protected bytes."""
    if pnlen is None:
        pnlen = 4 if len(payload) < 4 else 2
    pnb = (pn & ((1 << (8 * pnlen)) - 1)).to_bytes(pnlen, "big")
    if ptype == "1rtt":
        first = (fixed << 6) | (reserved & 0x18) | (key_phase << 2) | (pnlen - 1)
        head = bytes([first]) + dcid
        mask_bits = 0x1F
    else:
        tbits = {v: k for k, v in LONG_TYPES[version].items()}[ptype]
        first = 0x80 | (fixed << 6) | (tbits << 4) | (reserved & 0x0C) | (pnlen - 1)
        head = bytes([first]) + struct.pack(">I", version) + bytes([len(dcid)]) + dcid + bytes([len(scid)]) + scid
        if ptype == "initial":
            head += enc_var(len(token)) + token
        head += enc_var(pnlen + len(payload) + 16, 2)
        mask_bits = 0x0F
    header = head + pnb
    ct = keys.seal(header, pn, payload)
    pn_off = len(head)
    body = pnb + ct
    sample = body[4:20]
    m = keys.mask(sample)
    out = bytearray(header + ct)
    out[0] ^= m[0] & mask_bits
    for i in range(pnlen):
        out[pn_off + i] ^= m[1 + i]
    return bytes(out)
