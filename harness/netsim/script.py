"""Application / network scripts for the simulator: generation (seeded random,
or from TLC-simulated behaviours of Transfer.tla) and execution.

A script is a JSON list of steps; executing it is deterministic:
  ["write", ep, sid, n, fin]   ["reset", ep, sid]        ["stop", ep, sid]
  ["ping", ep]                 ["keyupdate", ep]         ["changecid", ep]
  ["close", ep, code]          ["rebind"]                ["dgram", ep, n]
  ["deliver", i]  ["drop", i]  ["dup", i]  ["swap"]      (i-th datagram in flight, modulo)
  ["timer", ep]   ["late", ep, us]   ["tick", us]
The executor only makes calls an application may make (no write after FIN or
reset, no write on a peer-initiated stream the endpoint has not seen yet, key
update only after the handshake completed) and skips a step otherwise.
"""
from . import sim as simmod

STREAMS = [0, 4, 2, 1, 3]          # client bidi x2, client uni, server bidi, server uni
ADV_BUDGET_US = 5_000_000


def initiator(sid):
    return "c" if sid % 2 == 0 else "s"


def is_uni(sid):
    return bool(sid & 2)


def other(ep):
    return "s" if ep == "c" else "c"


class Exec:
    def __init__(self, sim):
        self.sim = sim
        self.w = {}                 # (ep, sid) -> [offset, fin, reset]
        self.stopped = set()
        self.uid = 0
        self.t0 = None
        self.closed = False

    def can_write(self, ep, sid):
        if ep not in self.sim.eps or self.sim.terminated[ep]:
            return False
        if is_uni(sid) and initiator(sid) != ep:
            return False
        if initiator(sid) != ep and sid not in self.sim.known_streams[ep]:
            return False
        st = self.w.get((ep, sid), [0, False, False])
        return not st[1] and not st[2]

    def may_update_keys(self, ep):
        """RFC 9001 6.1 / 6.5: an endpoint initiates a key update only after the handshake is
        confirmed and after a packet it sent with the current keys has been acknowledged.
        aioquic leaves this to the caller of request_key_update(); the scripts respect it."""
        s = self.sim
        conn = s.eps.get(ep)
        if conn is None or s.terminated[ep] or not conn._handshake_confirmed:
            return False
        T = s.A["tls"].Epoch
        if conn._cryptos[T.ONE_RTT]._update_key_requested:
            return False
        last_gen, acked_gen = None, None
        la = conn._spaces[T.ONE_RTT].largest_acked_packet
        for e in s.log:
            if e["k"] == "pkt" and e["ep"] == ep and e.get("type") == "1rtt" and e.get("ok"):
                last_gen = e["gen"]
                if e["pn"] == la:
                    acked_gen = e["gen"]
        return last_gen is not None and acked_gen == last_gen and conn._cryptos[T.ONE_RTT].send.key_phase == last_gen % 2

    def step(self, st):
        s = self.sim
        op = st[0]
        if self.t0 is None:
            self.t0 = s.now
        if op == "write":
            _, ep, sid, n, fin = st
            if not self.can_write(ep, sid):
                return False
            cur = self.w.setdefault((ep, sid), [0, False, False])
            ok = s.api(ep, "write", sid, cur[0], n, bool(fin))
            if ok:
                cur[0] += n
                cur[1] = bool(fin)
            return ok
        if op == "reset":
            _, ep, sid = st
            if not self.can_write(ep, sid) or (ep, sid) not in self.w:
                return False
            self.w[(ep, sid)][2] = True
            return s.api(ep, "reset", sid, 7)
        if op == "stop":
            _, ep, sid = st
            # only on a stream this endpoint has received data on, once
            if ep not in s.eps or sid not in s.known_streams[ep] or (ep, sid) in self.stopped:
                return False
            if is_uni(sid) and initiator(sid) == ep:
                return False
            if sid in s.eps[ep]._streams_finished or sid not in s.eps[ep]._streams:
                return False
            self.stopped.add((ep, sid))
            return s.api(ep, "stop", sid, 9)
        if op == "ping":
            self.uid += 1
            return s.api(st[1], "ping", self.uid)
        if op == "keyupdate":
            ep = st[1]
            if not self.may_update_keys(ep):
                return False
            return s.api(ep, "keyupdate")
        if op == "changecid":
            return s.api(st[1], "changecid")
        if op == "dgram":
            return s.api(st[1], "dgram", st[2])
        if op == "close":
            self.closed = True
            return s.api(st[1], "close", st[2])
        if op == "inject":
            # ["inject", src, packet type, payload hex, tag]: a correctly protected packet from a key-holding peer
            from . import hostile
            _, src, ptype, hexpayload, tag = st
            dst = other(src)
            if src not in s.eps or dst not in s.eps or s.terminated[dst]:
                return False
            return hostile.inject(s, src, ptype, bytes.fromhex(hexpayload), tag)
        if op == "spoof":
            # a copy of the i-th datagram in flight (from the client) arrives from a spoofed source address
            cand = [j for j, d in enumerate(s.net) if d["src"] == "c"]
            if not cand:
                return False
            j = cand[st[1] % len(cand)]
            s.deliver(j, from_addr=("10.0.0.%d" % (50 + st[2] % 3), 7000 + st[2] % 3), keep=True, note="spoof")
            return True
        if op == "corrupt":
            # deliver a copy of the i-th datagram in flight with one byte altered; the original stays in flight
            if not s.net:
                return False
            i = st[1] % len(s.net)
            raw = bytearray(s.net[i]["data"])
            pos = st[2] % len(raw)
            raw[pos] ^= 0x20
            s.deliver(i, data=bytes(raw), keep=True, note="corrupt")
            return True
        if op == "truncate":
            # deliver only the first n bytes of the i-th datagram in flight (a middlebox that cuts datagrams); the original stays
            if not s.net:
                return False
            i = st[1] % len(s.net)
            raw = s.net[i]["data"]
            n = max(1, min(st[2], len(raw) - 1))
            s.deliver(i, data=bytes(raw[:n]), keep=True, note="corrupt")
            return True
        if op == "ncid":
            # ["ncid", src, k, back]: a key-holding peer re-sends the k-th NEW_CONNECTION_ID frame src has emitted so far
            # (same sequence number, connection ID and reset token: consistent with what src issued) with
            # retire_prior_to = max(0, seq - back); duplicates and reordering come from the script
            from . import hostile
            _, src, k, back = st
            dst = other(src)
            if src not in s.eps or dst not in s.eps or s.terminated[dst] or s.terminated[src]:
                return False
            if not s.eps[dst]._handshake_confirmed or not s.eps[src]._handshake_confirmed:
                return False
            emitter = {e["dg"]: e["ep"] for e in s.log if e["k"] == "pkt"}
            frames = [f for dg in sorted(s.emitted) if emitter.get(dg) == src for p in s.emitted[dg]
                      if p.get("ok") and p.get("frames") for f in p["frames"] if f["t"] == "new_connection_id"]
            if not frames:
                return False
            f = frames[k % len(frames)]
            rpt = max(0, f["seq"] - back)
            payload = hostile.f_new_cid(f["seq"], rpt, bytes(f["cid"]), bytes(f["srt"]))
            ok = hostile.inject(s, src, "1rtt", payload, "ncid")
            if ok:
                inj = next(e for e in reversed(s.log) if e["k"] == "inject")
                inj["frames"] = [{"t": "new_connection_id", "seq": f["seq"], "rpt": rpt, "cid": s.cid(f["cid"])}]
            return ok
        if op == "blackout":
            return s.blackout()
        if op == "rebind":
            if "s" not in s.eps or not s.eps["c"]._handshake_confirmed:
                return False
            s.rebind()
            return True
        if op in ("deliver", "drop", "dup"):
            if not s.net:
                return False
            i = st[1] % len(s.net)
            getattr(s, op)(i)
            return True
        if op == "swap":
            if len(s.net) < 2:
                return False
            s.net[0], s.net[1] = s.net[1], s.net[0]
            return True
        if op in ("timer", "late"):
            ep = st[1]
            due = s.timer_value(ep)
            if due is None:
                return False
            late = st[2] if op == "late" else 0
            if due + late - self.t0 > ADV_BUDGET_US:
                return False            # keep the adversarial phase far below the idle timeout
            return s.fire(ep, late)
        if op == "tick":
            if s.now + st[1] - self.t0 > ADV_BUDGET_US:
                return False
            s.tick(st[1])
            return True
        if op == "pump":
            # ["pump", n]: n steps of the fair schedule (deliver in order, fire timers on time) - lets windows grow
            s.run_fair(max_steps=st[1])
            return True
        if op == "run":
            # ["run", us]: let `us` microseconds pass; every endpoint timer that falls due meanwhile is fired on time
            # (the caller keeps its side of the contract), nothing is delivered
            end = s.now + st[1]
            if end - self.t0 > ADV_BUDGET_US:
                return False
            for _ in range(200):
                cand = [(s.timer_value(ep), ep) for ep in s.eps if not s.terminated[ep] and s.timer_value(ep) is not None]
                cand = [c for c in cand if c[0] < end]
                if not cand:
                    break
                n0, (v, ep) = s.dgid, min(cand)
                s.fire(ep)
                if s.dgid == n0 and s.timer_value(ep) == v:
                    break                  # a timer without effect: do not spin
            if s.now < end:
                s.tick(end - s.now)
            return True
        raise simmod.MachineryError("unknown step %r" % (st,))


def zrtt_guard(s, early):
    """Vacuity guards of Retry / resumed runs (machinery, never a verdict): a run that was asked to resume with
    accepted early data must have done so, its 0-RTT packets must have been seen (and opened) on the wire, a
    rejecting server must not have accepted, and a Retry run must have sent a Retry."""
    cfg = s.cfg
    hs = [e for e in s.log if e["k"] == "ev" and e["cls"] == "HandshakeCompleted"]
    zr = [e for e in s.log if e["k"] == "pkt" and e.get("type") == "0rtt"]
    if cfg.get("resume") == "accept" and any(not (e["early"] and e["resumed"]) for e in hs):
        raise simmod.MachineryError("resume=accept: the handshake completed without accepted early data")
    if cfg.get("resume") == "reject" and any(e["early"] or e["resumed"] for e in hs):
        raise simmod.MachineryError("resume=reject: the server resumed the session")
    rem = s.remembered or {}
    sendable = rem and rem["max_stream_data"] > 0 and rem["max_data"] > 0 and any(
        st[0] == "write" and st[1] == "c" and st[3] > 0 and st[2] // 4 < rem["max_streams"] for st in early or [])
    if cfg.get("resume") and sendable and not zr:
        raise simmod.MachineryError("resumed run with early writes: no 0-RTT packet on the wire")
    if any(not e["ok"] for e in zr):
        raise simmod.MachineryError("the observer could not open a 0-RTT packet")
    if cfg.get("retry") and "s" in s.eps and not (s.retry["sent"] and s.retry["accepted"]):
        raise simmod.MachineryError("retry run: a server connection exists without a Retry")


def run(A, cfg, script, seed=0, hs_adv=False, fair=True, early=None):
    """Execute a script; returns the Sim (with .log, .quiescent_end).  `early`: steps executed right after
    connect(), before anything of the client's first flight is delivered (the writes of a resumed run leave as
    0-RTT packets); then the handshake prelude (unless hs_adv) and the script as usual."""
    s = simmod.Sim(A, cfg, seed=seed)
    try:
        ex = Exec(s)
        if early is not None:
            s.connect()
            for st in early:
                ex.step(st)
            if not hs_adv:
                if not s.run_fair(until=lambda: all(ep in s.eps and s.eps[ep]._handshake_confirmed for ep in "cs") and not s.net):
                    s.ev("note", what="handshake did not complete in the fair prelude")
        elif hs_adv:
            s.connect()
        else:
            if not s.handshake():
                s.ev("note", what="handshake did not complete in the fair prelude")
        for st in script:
            ex.step(st)
        s.quiescent_end = s.run_fair() if fair else None
        s.run_closing()
        s.final_poll()
        s.ev("end", quiescent=bool(s.quiescent_end))
        s.executor = ex
        if s.cfg.get("resume") or s.cfg.get("retry"):
            zrtt_guard(s, early)
    finally:
        s.close()
    return s


def random_script(rnd, n_steps, profile, streams=None, sizes=None):
    """profile: dict of weights; keys = step kinds."""
    kinds = [k for k, w in profile.items() if w > 0]
    weights = [profile[k] for k in kinds]
    out = []
    STR = streams or STREAMS
    for _ in range(n_steps):
        k = rnd.choices(kinds, weights)[0]
        if k == "write":
            sid = rnd.choice(STR)
            ep = initiator(sid) if is_uni(sid) or rnd.random() < 0.7 else other(initiator(sid))
            n = rnd.choice(sizes or [0, 1, 2, 5, 30, 200, 1100, 1300, 3000])
            fin = rnd.random() < 0.3
            if n == 0 and not fin:
                n = 1
            out.append(["write", ep, sid, n, fin])
        elif k in ("reset", "stop"):
            sid = rnd.choice(STR)
            out.append([k, rnd.choice("cs"), sid])
        elif k in ("ping", "keyupdate", "changecid"):
            out.append([k, rnd.choice("cs")])
        elif k == "dgram":
            out.append(["dgram", rnd.choice("cs"), rnd.choice([1, 50, 500])])
        elif k in ("deliver", "drop", "dup"):
            out.append([k, rnd.randrange(8)])
        elif k in ("swap", "rebind"):
            out.append([k])
        elif k == "timer":
            out.append(["timer", rnd.choice("cs")])
        elif k == "late":
            out.append(["late", rnd.choice("cs"), rnd.choice([1, 1000, 30000])])
        elif k == "tick":
            out.append(["tick", rnd.choice([1, 500, 5000, 30000, 200000])])
        elif k == "close":
            out.append(["close", rnd.choice("cs"), rnd.choice([0, 5, 0x100])])
        elif k == "blackout":
            out.append(["blackout"])
        elif k == "corrupt":
            out.append(["corrupt", rnd.randrange(8), rnd.choice([30, 60, 200, 700, 1150])])
        elif k == "truncate":
            out.append(["truncate", rnd.randrange(8), rnd.choice([1, 7, 25, 600, 1100, 1199])])
        elif k == "ncid":
            out.append(["ncid", rnd.choice("cs"), rnd.randrange(16), rnd.choice([0, 0, 1, 2, 5])])
        elif k == "spoof":
            out.append(["spoof", rnd.randrange(8), rnd.randrange(3)])
    return out


ZRTT_MODES = [{"retry": True}, {"resume": "accept"}, {"resume": "reject"}, {"retry": True, "resume": "accept"},
              {"retry": True, "resume": "reject"}]


def random_early(rnd, streams=None, sizes=None, n=None):
    """Client writes made right after connect(), before anything is delivered (0-RTT data of a resumed run)."""
    out = []
    for _ in range(n or rnd.choice([1, 2, 2, 3, 4])):
        sid = rnd.choice([x for x in (streams or STREAMS) if initiator(x) == "c"])
        sz = rnd.choice(sizes or [1, 30, 200, 1100, 1300, 3000, 9000, 20000])
        out.append(["write", "c", sid, sz, rnd.random() < 0.3])
    return out


MANY_STREAMS = [0, 4, 8, 12, 2, 6, 10, 1, 5, 9, 3, 7, 11]
PROFILES = {
    "bulk": {"write": 3, "deliver": 8, "drop": 2, "dup": 0.3, "timer": 4, "tick": 0.5, "ping": 0.3},
    "tailloss": {"write": 6, "deliver": 4, "drop": 4, "timer": 5, "tick": 0.5},
    "flow": {"write": 7, "deliver": 8, "drop": 1.5, "dup": 0.5, "timer": 3, "tick": 1, "reset": 0.4, "stop": 0.2},
    "closing": {"write": 4, "deliver": 6, "drop": 1, "dup": 0.5, "timer": 2, "late": 0.7, "tick": 1, "ping": 0.5,
                "close": 0.8, "reset": 0.3, "keyupdate": 0.3, "rebind": 0.2, "corrupt": 0.5, "truncate": 0.3},
    "cids": {"write": 3, "deliver": 8, "drop": 1.5, "dup": 0.7, "swap": 1, "timer": 2, "changecid": 2.5, "ncid": 3,
             "rebind": 0.5, "keyupdate": 0.3},
    "cidload": {"write": 3, "deliver": 5, "drop": 1, "timer": 3, "changecid": 3, "ncid": 1, "tick": 0.5},
    "amplify": {"write": 5, "deliver": 6, "drop": 2, "dup": 1, "timer": 3, "spoof": 2, "rebind": 1.5, "corrupt": 0.5, "changecid": 0.5},
    "ptoclose": {"write": 3, "drop": 5, "timer": 4, "deliver": 1, "close": 0.6, "corrupt": 0.3, "truncate": 0.3},
    "blackout": {"write": 4, "deliver": 6, "drop": 1, "timer": 2, "tick": 1, "blackout": 0.5},
    "benign":  {"write": 5, "deliver": 8, "ping": 1, "tick": 1, "timer": 1},
    "lossy":   {"write": 5, "deliver": 6, "drop": 3, "timer": 3, "tick": 1, "ping": 1, "reset": 0.5, "stop": 0.3},
    "dup":     {"write": 5, "deliver": 6, "dup": 3, "swap": 2, "timer": 1, "tick": 1, "reset": 0.5},
    "mixed":   {"write": 6, "deliver": 7, "drop": 2, "dup": 2, "swap": 1, "timer": 3, "late": 0.5, "tick": 1,
                "ping": 0.5, "keyupdate": 0.7, "changecid": 0.5, "rebind": 0.4, "reset": 0.5, "stop": 0.3},
    "migrate": {"write": 5, "deliver": 7, "drop": 1, "dup": 1, "timer": 2, "changecid": 2, "rebind": 2, "keyupdate": 1},
}
