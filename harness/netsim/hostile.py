"""Key-holding hostile peer: builds correctly protected packets carrying
arbitrary frame bytes with the observer's (independent) encryptor and the keys
of one endpoint of a running simulation, and injects them into the other."""
from . import observer as obs
from ..overlay import MachineryError

V = obs.enc_var


def keys_for(sim, src, ptype):
    d = sim.obs.dir[src]
    if ptype == "initial":
        P = sim.A["packet"].QuicProtocolVersion
        ver = int(sim.eps[src]._version or P.VERSION_1)
        return obs.initial_keys(ver, sim.obs.initial_dcid, src == "c"), 0
    if ptype == "handshake":
        ks = d.hs
    elif ptype == "0rtt":
        ks = d.zero
    else:
        ks = d.app[d.gen] if d.app else None
    if not ks:
        return None, 0
    k = ks[0]
    if len(ks) > 1 and d.hs and len(d.hs) == 1:      # suite not settled for this epoch yet: it is the handshake's suite
        k = next((x for x in ks if x.suite == d.hs[0].suite), ks[0])
    return k, (d.gen % 2 if ptype == "1rtt" else 0)


def make_datagram(sim, src, ptype, payload, pn=None, pad_to=None, **kw):
    """A datagram from endpoint `src` to its peer with one packet of type ptype whose
    plaintext payload is `payload`.  Returns bytes or None when src has no keys of that kind."""
    sim._feed_keys()
    conn = sim.eps[src]
    keys, phase = keys_for(sim, src, ptype)
    if keys is None:
        return None
    P = sim.A["packet"].QuicProtocolVersion
    ver = int(conn._version or P.VERSION_1)
    if pn is None:
        pn = conn._packet_number
        conn._packet_number += 1           # the genuine endpoint will not reuse the number
        space = obs.SPACE_OF[ptype]
        if pn > sim.obs.dir[src].largest[space]:
            sim.obs.dir[src].largest[space] = pn
    raw = obs.build_packet(keys, ptype, ver, conn._peer_cid.cid, conn.host_cid, pn, payload,
                           token=kw.pop("token", b""), key_phase=kw.pop("key_phase", phase), **kw)
    if pad_to and len(raw) < pad_to:
        raw += bytes(pad_to - len(raw))
    return raw


def inject(sim, src, ptype, payload, tag, **kw):
    from_addr = kw.pop("from_addr", None)      # a source address of the hostile peer's choosing (default: the genuine one)
    pn = kw.get("pn")
    if pn is None:
        pn = sim.eps[src]._packet_number
    raw = make_datagram(sim, src, ptype, payload, pad_to=1200 if (ptype == "initial" and src == "c") else None, **kw)
    if raw is None:
        return False
    dst = "s" if src == "c" else "c"
    if dst not in sim.eps:
        raise MachineryError("hostile inject before the peer exists")
    addr = from_addr or (sim.caddr if src == "c" else ("10.0.0.2", 4433))
    rec = sim.ev("inject", src=src, ptype=ptype, tag=tag, plen=len(payload), pn=pn, accepted=False)
    closing_before = sim.eps[dst]._close_event is not None
    sim.inject(dst, raw, addr, tag)
    # did the receiver authenticate and process the packet?  (internal read: the packet number is queued for acknowledgement)
    T = sim.A["tls"].Epoch
    ep_ = {"initial": T.INITIAL, "handshake": T.HANDSHAKE, "0rtt": T.ONE_RTT, "1rtt": T.ONE_RTT}[ptype]
    space = sim.eps[dst]._spaces.get(ep_) if hasattr(sim.eps[dst], "_spaces") else None
    # (a packet whose payload made the endpoint close is not queued for acknowledgement)
    rec["accepted"] = bool(space is not None and pn in space.ack_queue) or \
        (not closing_before and sim.eps[dst]._close_event is not None)
    return True


# ------------------------------------------------------------ frame encoders
def f_padding(n=1):
    return bytes(n)


def f_ping():
    return b"\x01"


def f_ack(largest, delay=0, first=0, ranges=(), ecn=None):
    b = (b"\x03" if ecn else b"\x02") + V(largest) + V(delay) + V(len(ranges)) + V(first)
    for gap, ln in ranges:
        b += V(gap) + V(ln)
    if ecn:
        b += b"".join(V(x) for x in ecn)
    return b


def f_reset_stream(sid, code, final):
    return b"\x04" + V(sid) + V(code) + V(final)


def f_stop_sending(sid, code):
    return b"\x05" + V(sid) + V(code)


def f_crypto(off, data):
    return b"\x06" + V(off) + V(len(data)) + data


def f_new_token(tok):
    return b"\x07" + V(len(tok)) + tok


def f_stream(sid, off, data, fin=False, with_len=True, with_off=None):
    t = 0x08 | (1 if fin else 0)
    if with_off is None:
        with_off = off != 0
    if with_off:
        t |= 4
    if with_len:
        t |= 2
    return bytes([t]) + V(sid) + (V(off) if with_off else b"") + (V(len(data)) if with_len else b"") + data


def f_max_data(v):
    return b"\x10" + V(v)


def f_max_stream_data(sid, v):
    return b"\x11" + V(sid) + V(v)


def f_max_streams(v, uni=False):
    return (b"\x13" if uni else b"\x12") + V(v)


def f_data_blocked(v):
    return b"\x14" + V(v)


def f_stream_data_blocked(sid, v):
    return b"\x15" + V(sid) + V(v)


def f_streams_blocked(v, uni=False):
    return (b"\x17" if uni else b"\x16") + V(v)


def f_new_cid(seq, rpt, cid, srt=bytes(16)):
    return b"\x18" + V(seq) + V(rpt) + bytes([len(cid)]) + cid + srt


def f_retire_cid(seq):
    return b"\x19" + V(seq)


def f_path_challenge(d=bytes(8)):
    return b"\x1a" + d


def f_path_response(d=bytes(8)):
    return b"\x1b" + d


def f_close(code, ftype=0, reason=b"", app=False):
    if app:
        return b"\x1d" + V(code) + V(len(reason)) + reason
    return b"\x1c" + V(code) + V(ftype) + V(len(reason)) + reason


def f_handshake_done():
    return b"\x1e"


def f_datagram(data, with_len=True):
    return (b"\x31" + V(len(data)) + data) if with_len else (b"\x30" + data)
