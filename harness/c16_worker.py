"""C16 worker process: replays a shard of cases / sessions on real objects.

Started by harness/drivers/c16.py as a fresh interpreter (a forked pool is
pathologically slow in this sandbox):  python -m harness.c16_worker <overlay
root> <shard.json> <out.json>
"""
import json
import os
import sys


def main(root, shard, outp):
    from harness import overlay
    overlay.activate(root)
    from harness import c16_h3 as H
    from harness.drivers import c16
    c16.A = H.load_modules()
    job = json.load(open(shard))
    out = c16.work_shard(job)
    tmp = outp + ".tmp"
    with open(tmp, "w") as f:
        json.dump(out, f, separators=(",", ":"))
    os.replace(tmp, outp)


if __name__ == "__main__":
    main(*sys.argv[1:4])
