"""C04 worker: runs INSIDE the sanitizer subprocess (ASan+UBSan build of the
current C sources on PYTHONPATH, LD_PRELOAD = asan runtime + c04 shim,
PYTHONMALLOC=malloc).  It only executes calls and records what happened; every
verdict is TLC's (TraceMemSafe / TraceBufferModel).

usage: c04_worker.py <jobs.json> <out.ndjson> <first job index>

Every call into the C helpers is bracketed in the output by a "b" record
(written and flushed before the call, carrying the argument lengths) and an
"e" record.  If the process dies, the parent reads the last unmatched "b".
"""
import json
import os
import sys


def main():
    jobs = json.load(open(sys.argv[1]))
    import random
    rnd = random.Random(int(sys.argv[4]) if len(sys.argv) > 4 else 1)
    os.urandom = lambda n: rnd.randbytes(n)      # connection ids / TLS randoms: deterministic per seed
    out_fd = os.open(sys.argv[2], os.O_WRONLY | os.O_APPEND | os.O_CREAT, 0o644)
    first = int(sys.argv[3])
    errpath = sys.argv[2] + ".stderr"
    W = Worker(out_fd)
    # everything expensive happens once, here; each job then runs in a forked
    # child, so a sanitizer report (which ends the process) costs one fork
    kinds = {j["k"] for j in jobs[first:]}
    if "crypto" in kinds:
        for ci in sorted({j.get("cipher", 0) for j in jobs[first:] if j["k"] == "crypto"}):
            W.direct_objects(ci)
        if any(j.get("valid") for j in jobs[first:]):
            W.seal(0, fill(16, 1), fill(12, 2), b"x", b"y", 1)
    if kinds & {"buf", "bufnew"}:
        from aioquic import _buffer  # noqa
    if kinds & {"session", "hostile"}:
        import aioquic.quic.connection  # noqa
        W.install_wrappers()
    seed = int(sys.argv[4]) if len(sys.argv) > 4 else 1
    i = first
    while i < len(jobs):
        # a forked child runs jobs i, i+1, ... until it finishes or dies (a fork of
        # an ASan process is expensive, so: one fork per death, not per job)
        rfd, wfd = os.pipe()
        pid = os.fork()
        if pid == 0:
            os.close(rfd)
            code = 0
            try:
                fd = os.open(errpath, os.O_WRONLY | os.O_CREAT | os.O_TRUNC, 0o644)
                os.dup2(fd, 2)
                for k in range(i, len(jobs)):
                    j = jobs[k]
                    W.job = k
                    os.write(wfd, b"%d\n" % k)
                    W.emit({"ev": "job", "i": k})
                    rnd.seed(seed * 100003 + j.get("i", k))
                    getattr(W, "job_" + j["k"])(j)
                    W.emit({"ev": "done", "i": k})
            except BaseException:               # noqa: a bug of the worker itself
                import traceback
                os.write(2, ("WORKER-ERROR\n" + traceback.format_exc()).encode())
                code = 3
            os._exit(code)
        os.close(wfd)
        started = b""
        while True:
            chunk = os.read(rfd, 65536)
            if not chunk:
                break
            started += chunk
        os.close(rfd)
        _, status = os.waitpid(pid, 0)
        if status == 0:
            break
        last = int(started.split()[-1]) if started.split() else i
        rc = -(status & 0x7F) if status & 0x7F else status >> 8
        try:
            err = open(errpath, errors="replace").read()
        except OSError:
            err = ""
        W.emit({"ev": "death", "job": last, "rc": rc, "stderr": err[-12000:]})
        i = last + 1
    try:
        os.unlink(errpath)
    except OSError:
        pass
    W.emit({"ev": "end"})


def fill(n, salt):
    """n deterministic pseudo-random bytes (cheap, content does not matter for bounds)."""
    if n <= 0:
        return b""
    blk = bytes((salt * 131 + k * 7 + 13) & 0xFF for k in range(251))
    return (blk * (n // 251 + 1))[:n]


def enc_int(v):
    """An arbitrary Python int as sign + base-2^30 limbs (TLC integers are 32 bit)."""
    m = -v if v < 0 else v
    return {"sg": -1 if v < 0 else (1 if v > 0 else 0), "l0": m & (2 ** 30 - 1),
            "l1": (m >> 30) & (2 ** 30 - 1), "l2": min(m >> 60, 1 << 20)}


CERTS = os.environ.get("C04_CERTS", "/repo/tests")
CIPHERS = [(b"aes-128-ecb", b"aes-128-gcm", 16), (b"chacha20", b"chacha20-poly1305", 32),
           (b"aes-256-ecb", b"aes-256-gcm", 32)]


class Worker:
    def __init__(self, fd):
        self.fd = fd
        self.job = -1
        self.src = "direct"
        self._direct = {}
        self._kat = {}

    def emit(self, rec):
        os.write(self.fd, (json.dumps(rec, separators=(",", ":")) + "\n").encode())

    # -- bracketed C call ---------------------------------------------------------------------------------
    def ccall(self, ep, x, y, pn, fn, args, usable=None, pn_of=None, extra=None):
        b = {"ev": "b", "job": self.job, "ep": ep, "x": x, "y": y, "pn": pn, "src": self.src}
        if extra:
            b.update(extra)
        self.emit(b)
        exc = None
        try:
            res = fn(*args)
        except BaseException as e:          # noqa: any Python exception is a rejection
            exc = e
        rec = {"ev": "e", "job": self.job, "out": "accepted" if exc is None else "rejected",
               "exc": "" if exc is None else type(exc).__name__, "pn": pn, "usable": -1}
        if exc is None and pn_of is not None:
            rec["pn"] = pn_of(res)
        if usable is not None and (exc is not None or self.src == "direct"):
            try:
                rec["usable"] = 1 if usable() else 0
            except BaseException as e:      # noqa
                rec["usable"] = 0
                rec["usable_exc"] = type(e).__name__
        self.emit(rec)
        if exc is not None:
            raise exc
        return res

    # -- known-answer probes: "the helper is still usable" ------------------------------------------
    def kat_hp(self, hp, key):
        pkt = bytes([0x43]) + fill(63, 5)
        hdr = bytes([0x41]) + fill(10, 6)
        pay = fill(40, 7)
        if key not in self._kat:
            self._kat[key] = (hp.remove(pkt, 9), hp.apply(hdr, pay))
            return True
        return (hp.remove(pkt, 9), hp.apply(hdr, pay)) == self._kat[key]

    def kat_aead(self, aead, key):
        ct = aead.encrypt(fill(33, 8), b"hdr", 7)
        ok = aead.decrypt(ct, b"hdr", 7) == fill(33, 8)
        if key not in self._kat:
            self._kat[key] = ct
            return ok
        return ok and ct == self._kat[key]

    # -- direct calls of the four entry points --------------------------------------------------------
    def direct_objects(self, ci):
        if ci not in self._direct:
            from aioquic import _crypto
            hpn, aen, kl = CIPHERS[ci]
            key = fill(kl, 40 + ci)
            iv = fill(12, 50 + ci)
            hp = _crypto.HeaderProtection(hpn, key)
            aead = _crypto.AEAD(aen, key, iv)
            self.kat_hp(hp, ("hp", ci))
            self.kat_aead(aead, ("aead", ci))
            self._direct[ci] = (hp, aead, key, iv)
        return self._direct[ci]

    def job_crypto(self, j):
        self.src = "direct"
        ci = j.get("cipher", 0)
        hp, aead, key, iv = self.direct_objects(ci)
        ep, x, y, pn = j["ep"], j["x"], j["y"], j["pn"]
        try:
            if ep == "HP_remove":
                pkt = bytes([0xC3 if j.get("long") else 0x43]) + fill(x - 1, j["i"]) if x > 0 else b""
                self.ccall(ep, x, y, pn, hp.remove, (pkt, y), usable=lambda: self.kat_hp(hp, ("hp", ci)),
                           pn_of=lambda r: (r[0][0] & 3) + 1)
            elif ep == "HP_apply":
                hdr = bytes([0x40 | (pn - 1)]) + fill(x - 1, j["i"]) if x > 0 else b""
                self.ccall(ep, x, y, pn, hp.apply, (hdr, fill(y, j["i"] + 1)),
                           usable=lambda: self.kat_hp(hp, ("hp", ci)))
            elif ep == "AEAD_encrypt":
                self.ccall(ep, x, y, pn, aead.encrypt, (fill(x, j["i"]), fill(y, 3), j["i"]),
                           usable=lambda: self.kat_aead(aead, ("aead", ci)))
            elif ep == "AEAD_decrypt":
                data, aad = fill(x, j["i"]), fill(y, 3)
                if j.get("valid") and x >= 16:
                    data = self.seal(ci, key, iv, fill(x - 16, j["i"]), aad, j["i"])
                self.ccall(ep, x, y, pn, aead.decrypt, (data, aad, j["i"]),
                           usable=lambda: self.kat_aead(aead, ("aead", ci)), extra={"valid": int(bool(j.get("valid")))})
        except Exception:
            pass

    def seal(self, ci, key, iv, plain, aad, pnum):
        """A valid ciphertext made by an independent implementation (pyca/cryptography)."""
        from cryptography.hazmat.primitives.ciphers.aead import AESGCM, ChaCha20Poly1305
        nonce = bytearray(iv)
        for k in range(8):
            nonce[11 - k] ^= (pnum >> (8 * k)) & 0xFF
        a = ChaCha20Poly1305(key) if ci == 1 else AESGCM(key)
        return a.encrypt(bytes(nonce), plain, aad)

    # -- Buffer ---------------------------------------------------------------------------------------
    def job_buf(self, j):
        from aioquic import _buffer
        self.src = "direct"

        def make():
            if j.get("content") is not None:
                buf = _buffer.Buffer(data=bytes(j["content"]))
            else:
                buf = _buffer.Buffer(capacity=j["cap"])
            if j.get("pos"):
                buf.seek(j["pos"])
            return buf
        buf = make()
        for call in j["calls"]:
            if j.get("fresh"):          # every call from the same start state
                buf = make()
            self.buf_call(buf, call)

    def job_bufnew(self, j):
        """Buffer(capacity=v) for boundary / negative / huge v; an accepted
        buffer is then probed (the probe is part of the bracketed call)."""
        from aioquic import _buffer
        self.src = "direct"
        v = j["capacity"]
        nd = j.get("data")                  # also initial contents of nd bytes (both keywords in one call)
        z = enc_int(0)
        self.emit({"ev": "b", "job": self.job, "ep": "Buffer.new", "m": "new", "cap": 0, "pos": 0, "lead": 0,
                   "a": enc_int(v), "b": z, "n": nd or 0, "src": self.src, "argv": [str(v)] + ([str(nd)] if nd is not None else [])})
        kind, pos2, cap2, usable = "ok", -1, -1, 1
        try:
            buf = _buffer.Buffer(capacity=v) if nd is None else _buffer.Buffer(capacity=v, data=fill(nd, 9))
        except BaseException as e:          # noqa
            kind = type(e).__name__
        else:
            pos2, cap2 = buf.tell(), buf.capacity
            try:
                if nd:
                    usable = 1 if cap2 >= nd and buf.data_slice(0, nd) == fill(nd, 9) else 0
                elif cap2 != 0:
                    buf.push_uint8(7)
                    buf.seek(0)
                    usable = 1 if buf.pull_uint8() == 7 else 0
                    buf.seek(0)
                else:
                    usable = 1 if buf.eof() else 0
            except BaseException:           # noqa
                usable = 0
        self.emit({"ev": "e", "job": self.job, "out": {"kind": kind, "ret": -1}, "pos2": pos2, "cap2": cap2,
                   "usable": usable})

    def buf_call(self, buf, call):
        m, args = call["m"], call.get("args", [])
        cap, pos = buf.capacity, buf.tell()
        lead = buf.data_slice(pos, pos + 1)[0] >> 6 if pos < cap else 0
        z = enc_int(0)
        b = {"ev": "b", "job": self.job, "ep": "Buffer." + m, "m": m, "cap": cap, "pos": pos, "lead": lead,
             "a": z, "b": z, "n": 0, "src": self.src, "argv": [str(a) for a in args]}
        real = list(args)
        if m == "push_bytes":
            b["n"] = args[0]
            real = [fill(args[0], 9)]
        elif m == "data_slice":
            b["a"], b["b"] = enc_int(args[0]), enc_int(args[1])
        elif m in ("seek", "pull_bytes", "push_uint_var", "push_uint8", "push_uint16", "push_uint32", "push_uint64"):
            b["a"] = enc_int(args[0])
        self.emit(b)
        kind, ret = "ok", -1
        try:
            r = getattr(buf, m) if m in ("capacity", "data") else getattr(buf, m)(*real)
            if m in ("tell", "capacity"):
                ret = r
            elif m == "eof":
                ret = int(r)
            elif m in ("data", "data_slice", "pull_bytes"):
                ret = len(r)
        except BaseException as e:          # noqa
            kind = type(e).__name__
        usable = 1
        try:
            pos2, cap2 = buf.tell(), buf.capacity
        except BaseException:               # noqa
            pos2, cap2, usable = -1, -1, 0
        self.emit({"ev": "e", "job": self.job, "out": {"kind": kind, "ret": ret}, "pos2": pos2, "cap2": cap2,
                   "usable": usable})

    # -- wrapping the Python/C boundary inside the library ------------------------------------------
    def install_wrappers(self):
        import aioquic.quic.crypto as qc
        from aioquic import _crypto
        W = self

        class LoggedAEAD:
            def __init__(self, cipher_name, key, iv):
                self._o = _crypto.AEAD(cipher_name, key, iv)

            def _usable(self):
                ct = self._o.encrypt(b"probe", b"h", 1)
                return self._o.decrypt(ct, b"h", 1) == b"probe"

            def decrypt(self, data, associated, pn):
                return W.ccall("AEAD_decrypt", len(data), len(associated), 0, self._o.decrypt,
                               (data, associated, pn), usable=self._usable, extra={"valid": -1})

            def encrypt(self, data, associated, pn):
                return W.ccall("AEAD_encrypt", len(data), len(associated), 0, self._o.encrypt,
                               (data, associated, pn), usable=self._usable)

        class LoggedHP:
            def __init__(self, cipher_name, key):
                self._o = _crypto.HeaderProtection(cipher_name, key)

            def _usable(self):
                hdr, pay = bytes([0x41]) + bytes(10), bytes(40)
                prot = self._o.apply(hdr, pay)
                return self._o.remove(prot, 9)[0] == hdr

            def apply(self, header, payload):
                pn = (header[0] & 3) + 1 if header else 1
                return W.ccall("HP_apply", len(header), len(payload), pn, self._o.apply, (header, payload),
                               usable=self._usable)

            def remove(self, packet, off):
                return W.ccall("HP_remove", len(packet), off, 4, self._o.remove, (packet, off),
                               usable=self._usable, pn_of=lambda r: (r[0][0] & 3) + 1)

        qc.AEAD = LoggedAEAD
        qc.HeaderProtection = LoggedHP

    def api(self, fn, *a):
        try:
            return fn(*a)
        except BaseException as e:          # noqa: an exception out of the library API is not C04's concern
            self.api_exc += 1
            self.emit({"ev": "api-exc", "job": self.job, "fn": getattr(fn, "__name__", "?"), "type": type(e).__name__})
            return None

    def make_pair(self, mds_c, mds_s, suite=None, cid_len=8, odcid=None):
        from aioquic.quic.configuration import QuicConfiguration
        from aioquic.quic.connection import QuicConnection
        from aioquic import tls
        cc = QuicConfiguration(is_client=True, max_datagram_size=mds_c, connection_id_length=cid_len)
        cc.load_verify_locations(cafile=os.path.join(CERTS, "pycacert.pem"))
        cc.server_name = "localhost"
        sc = QuicConfiguration(is_client=False, max_datagram_size=mds_s, connection_id_length=cid_len)
        sc.load_cert_chain(os.path.join(CERTS, "ssl_cert.pem"), os.path.join(CERTS, "ssl_key.pem"))
        if suite:
            cs = [getattr(tls.CipherSuite, suite)]
            cc.cipher_suites = cs
        client = QuicConnection(configuration=cc)
        server = QuicConnection(configuration=sc, original_destination_connection_id=(
            odcid if odcid is not None else client.original_destination_connection_id))
        return client, server

    CADDR = ("1.2.3.4", 1234)
    SADDR = ("2.3.4.5", 4433)

    def exchange(self, client, server, now, rounds, done=lambda: False):
        idle = 0
        for _ in range(rounds):
            n = 0
            for a, b, frm in ((client, server, self.CADDR), (server, client, self.SADDR)):
                to = self.SADDR if a is client else self.CADDR
                for data, _addr in self.api(a.datagrams_to_send, now) or []:
                    n += 1
                    self.api(b.receive_datagram, data, frm, now)
                del to
            now += 0.003
            for a in (client, server):
                t = self.api(a.get_timer)
                if t is not None and t <= now:
                    self.api(a.handle_timer, now)
            self.drain(client, "c")
            self.drain(server, "s")
            idle = idle + 1 if n == 0 else 0
            if self.api_exc > 5 or done() or idle > 40:
                break
        return now

    def drain(self, conn, who):
        from aioquic.quic import events
        while True:
            ev = self.api(conn.next_event)
            if ev is None:
                return
            if isinstance(ev, events.StreamDataReceived):
                self.rx[who] += len(ev.data)
            elif isinstance(ev, events.HandshakeCompleted):
                self.hs[who] = True
            elif isinstance(ev, events.ConnectionTerminated):
                self.term[who] = True

    def reset_session(self):
        self.api_exc = 0
        self.rx = {"c": 0, "s": 0}
        self.hs = {"c": False, "s": False}
        self.term = {"c": False, "s": False}

    def job_session(self, j):
        """A real handshake and bulk transfer in both directions between two
        QuicConnections with the given max_datagram_size."""
        self.src = "session"
        self.reset_session()
        client, server = self.make_pair(j["mds_c"], j["mds_s"], j.get("suite"))
        now = 0.0
        self.api(client.connect, self.SADDR, now)
        now = self.exchange(client, server, now, 200, done=lambda: self.hs["c"] and self.hs["s"])
        nbytes = j["nbytes"]
        if self.hs["c"] and self.hs["s"]:
            sid = self.api(client.get_next_available_stream_id)
            if sid is not None:
                self.api(client.send_stream_data, sid, fill(nbytes, j["seed"]), True)
                now = self.exchange(client, server, now, 40)
                self.api(server.send_stream_data, sid, fill(nbytes, j["seed"] + 1), True)
            if j.get("key_update"):
                self.api(client.request_key_update)
            now = self.exchange(client, server, now, 4000,
                                done=lambda: self.rx["c"] >= nbytes and self.rx["s"] >= nbytes)
            self.api(client.close)
            now = self.exchange(client, server, now, 20)
        self.emit({"ev": "session", "job": self.job, "mds_c": j["mds_c"], "mds_s": j["mds_s"],
                   "handshake": int(self.hs["c"] and self.hs["s"]), "rx_c": self.rx["c"], "rx_s": self.rx["s"],
                   "api_exc": self.api_exc})

    # -- hostile datagrams into real connections ------------------------------------------------------
    @staticmethod
    def varint(v, size):
        return (v | {1: 0, 2: 0x4000, 4: 0x80000000, 8: 0xC000000000000000}[size]).to_bytes(size, "big")

    def long_packet(self, ptype, dcid, scid, rest, lv, token=None, tv=1, pad_to=0, salt=1):
        first = 0xC0 | (ptype << 4) | 0x03
        h = bytes([first]) + (1).to_bytes(4, "big") + bytes([len(dcid)]) + dcid + bytes([len(scid)]) + scid
        if token is not None:
            h += self.varint(len(token), tv) + token
        h += self.varint(rest["claimed"], lv)
        d = h + fill(rest["present"], salt)
        if len(d) < pad_to:
            d += bytes(pad_to - len(d))
        return d

    def hostile_datagram(self, spec, target_cid):
        f = spec["form"]
        if f == "short":
            n = spec["len"]
            body = (target_cid if spec.get("use_cid") else b"") + fill(n, spec.get("salt", 2))
            return (bytes([0x40 | (spec.get("bits", 0) & 0x3F)]) + body)[:n]
        if f == "raw":
            return bytes.fromhex(spec["hex"])
        tok = fill(spec["token"], 4) if spec.get("token") is not None else None
        ptype = {"initial": 0, "zero_rtt": 1, "handshake": 2}[f]
        dcid = target_cid if spec.get("use_cid", True) else fill(spec.get("dcid_len", 8), 11)
        if f == "initial" and tok is None:
            tok = b""
        rest = {"claimed": spec["rest"], "present": spec.get("present", spec["rest"])}
        return self.long_packet(ptype, dcid, fill(spec.get("scid_len", 8), 12), rest, spec.get("lv", 2),
                                token=tok, tv=spec.get("tv", 1 if (tok is None or len(tok) < 64) else 2),
                                pad_to=spec.get("pad_to", 0), salt=spec.get("salt", 1))

    def job_hostile(self, j):
        self.src = "hostile"
        self.reset_session()
        target = j["target"]
        client, server = self.make_pair(1200, 1200, cid_len=j.get("cid_len", 8),
                                        odcid=fill(8, 11) if target == "server-fresh" else None)
        now = 0.0
        if target == "server-fresh":
            victim, frm, cid = server, self.CADDR, fill(8, 21)
        else:
            self.api(client.connect, self.SADDR, now)
            if target == "client-initial":
                victim, frm, cid = client, self.SADDR, client.host_cid
            elif target == "client-handshake":
                # client -> server, server's first flight -> client: the client now holds handshake keys
                for data, _a in self.api(client.datagrams_to_send, now) or []:
                    self.api(server.receive_datagram, data, self.CADDR, now)
                for data, _a in self.api(server.datagrams_to_send, now) or []:
                    self.api(client.receive_datagram, data, self.SADDR, now)
                victim, frm, cid = client, self.SADDR, client.host_cid
            else:
                now = self.exchange(client, server, now, 200, done=lambda: self.hs["c"] and self.hs["s"])
                now = self.exchange(client, server, now, 10)
                if target == "server-1rtt":
                    victim, frm, cid = server, self.CADDR, server.host_cid
                else:
                    victim, frm, cid = client, self.SADDR, client.host_cid
        self.src = "hostile"
        for spec in j["dgrams"]:
            d = self.hostile_datagram(spec, cid)
            self.emit({"ev": "dgram", "job": self.job, "target": target, "spec": spec, "len": len(d)})
            self.api(victim.receive_datagram, d, frm, now)
            self.api(victim.datagrams_to_send, now)
        self.emit({"ev": "hostile-done", "job": self.job, "target": target, "n": len(j["dgrams"]),
                   "api_exc": self.api_exc})


if __name__ == "__main__":
    main()
