"""C03 helper: the netsim with (a) per-side configuration options (cipher-suite,
ALPN and version lists, original version, certificates, client-certificate
request), (b) the server APPLICATION's part of connection establishment
(Version Negotiation and Retry packets, built here from RFC 8999/9000/9001 with
the observer's constants, not with aioquic's encoders), and (c) a man in the
middle that holds the packet-protection keys of the key logs and alters ONE byte
of one TLS handshake message inside the CRYPTO stream, re-protecting the packet
with the observer's independent encryptor (same header, same packet number).

Everything is additive: `MitmSim` subclasses `netsim.sim.Sim`; nothing in the
netsim files is changed."""
import datetime
import os
import struct

from cryptography.hazmat.primitives.ciphers.aead import AESGCM

from .netsim import observer as obs
from .netsim import sim as simmod
from .overlay import MachineryError

FIXTURES = "/repo/tests"          # certificates are test fixtures, not code under check
VNAME = {"v1": obs.V1, "v2": obs.V2}
VSTR = {obs.V1: "v1", obs.V2: "v2"}
CLIENT_MSG = {1: "CH", 11: "CCERT", 15: "CCV", 20: "CFIN"}
SERVER_MSG = {2: "SH", 8: "EE", 13: "CR", 11: "CERT", 15: "CV", 20: "FIN"}
SRC_OF = {"CH": "c", "CCERT": "c", "CCV": "c", "CFIN": "c",
          "SH": "s", "EE": "s", "CR": "s", "CERT": "s", "CV": "s", "FIN": "s"}
SPACE_OF = {"CH": "i", "SH": "i"}
RETRY_SCID = b"RETRYCID"
RETRY_TOKEN = b"c03-retry-token"


# ------------------------------------------------------------------ identities
class Identity:
    def __init__(self, cert, key, chain=()):
        self.cert, self.key, self.chain = cert, key, list(chain)


IP_NAME = "192.0.2.10"


def make_pki(tls):
    """Server identities by name and the PEM of the generated CA the client trusts
    in addition to tests/pycacert.pem.  kinds: the model's certificate kind of
    each identity."""
    from cryptography import x509
    from cryptography.hazmat.primitives import hashes, serialization
    from cryptography.hazmat.primitives.asymmetric import ec, ed448, ed25519, rsa
    now = datetime.datetime.now(datetime.timezone.utc)
    day = datetime.timedelta(days=1)

    def name(cn):
        return x509.Name([x509.NameAttribute(x509.NameOID.COMMON_NAME, cn)])

    def ca(cn):
        key = ec.generate_private_key(ec.SECP256R1())
        cert = (x509.CertificateBuilder().subject_name(name(cn)).issuer_name(name(cn)).public_key(key.public_key())
                .serial_number(x509.random_serial_number()).not_valid_before(now - day).not_valid_after(now + 30 * day)
                .add_extension(x509.BasicConstraints(ca=True, path_length=None), critical=True)
                .add_extension(x509.KeyUsage(digital_signature=True, content_commitment=False, key_encipherment=False,
                                             data_encipherment=False, key_agreement=False, key_cert_sign=True,
                                             crl_sign=True, encipher_only=False, decipher_only=False), critical=True)
                .add_extension(x509.SubjectKeyIdentifier.from_public_key(key.public_key()), critical=False)
                .sign(key, hashes.SHA256()))
        return cert, key

    def leaf(key, issuer, host="localhost", nvb=None, nva=None, ip=None):
        icert, ikey = issuer
        import ipaddress
        san = [x509.IPAddress(ipaddress.ip_address(ip))] if ip else [x509.DNSName(host)]
        b = (x509.CertificateBuilder().subject_name(name(ip or host)).issuer_name(icert.subject).public_key(key.public_key())
             .serial_number(x509.random_serial_number()).not_valid_before(nvb or now - day)
             .not_valid_after(nva or now + 10 * day)
             .add_extension(x509.SubjectAlternativeName(san), critical=False)
             .add_extension(x509.BasicConstraints(ca=False, path_length=None), critical=True)
             .add_extension(x509.AuthorityKeyIdentifier.from_issuer_public_key(ikey.public_key()), critical=False))
        return b.sign(ikey, hashes.SHA256())

    def self_signed(key, host="localhost"):      # as tests/utils.py generate_certificate
        b = (x509.CertificateBuilder().subject_name(name(host)).issuer_name(name(host)).public_key(key.public_key())
             .serial_number(x509.random_serial_number()).not_valid_before(now - day).not_valid_after(now + 10 * day)
             .add_extension(x509.SubjectAlternativeName([x509.DNSName(host)]), critical=False))
        return b.sign(key, hashes.SHA256())

    trusted, rogue = ca("C03 trusted test CA"), ca("C03 rogue CA")
    fx_cert = tls.load_pem_x509_certificates(open(os.path.join(FIXTURES, "ssl_cert.pem"), "rb").read())[0]
    fx_key = tls.load_pem_private_key(open(os.path.join(FIXTURES, "ssl_key.pem"), "rb").read())
    ids, kinds = {}, {}

    def add(n, kind, cert, key, chain=()):
        ids[n] = Identity(cert, key, chain)
        kinds[n] = kind

    add("fixture", "valid", fx_cert, fx_key)
    for n, key in (("rsa", rsa.generate_private_key(public_exponent=65537, key_size=2048)),
                   ("p256", ec.generate_private_key(ec.SECP256R1())),
                   ("p384", ec.generate_private_key(ec.SECP384R1())),
                   ("ed25519", ed25519.Ed25519PrivateKey.generate()),
                   ("ed448", ed448.Ed448PrivateKey.generate())):
        add(n, "valid", leaf(key, trusted), key)
    k = ec.generate_private_key(ec.SECP256R1())
    add("wrongname", "wrongname", leaf(k, trusted, host="example.com"), k)
    # identities "ip-*": the client asks for the literal address IP_NAME (no SNI is sent for a literal address, the
    # certificate must still validate for it)
    add("ip-valid", "valid", leaf(k, trusted, ip=IP_NAME), k)
    add("ip-wrongname", "wrongname", leaf(k, trusted, ip="192.0.2.99"), k)
    add("ip-wrongname-dns", "wrongname", leaf(k, trusted, host="localhost"), k)
    add("expired", "expired", leaf(k, trusted, nvb=now - 20 * day, nva=now - 10 * day), k)
    add("notyetvalid", "expired", leaf(k, trusted, nvb=now + 10 * day, nva=now + 20 * day), k)
    add("selfsigned", "selfsigned", self_signed(k), k)
    k2 = rsa.generate_private_key(public_exponent=65537, key_size=2048)
    add("selfsigned-rsa", "selfsigned", self_signed(k2), k2)
    add("untrusted-ca", "untrustedchain", leaf(k, rogue), k)                       # issuer unknown, not sent
    add("untrusted-ca-root-in-chain", "untrustedchain", leaf(k, rogue), k, [rogue[0]])
    add("wrongkey", "wrongkey", fx_cert, k2)                                      # somebody else's RSA certificate
    add("wrongkey-ec", "wrongkey", ids["p256"].cert, k)                           # ... EC certificate
    add("wrongkey-type", "wrongkey", fx_cert, k)                                  # RSA certificate, EC key
    ck = ec.generate_private_key(ec.SECP256R1())
    add("client", "valid", leaf(ck, trusted, host="client.example"), ck)
    cadata = trusted[0].public_bytes(serialization.Encoding.PEM)
    return {"ids": ids, "kinds": kinds, "cadata": cadata}


# -------------------------------------------------------------- frame walking
def crypto_positions(plain):
    """(stream offset, length, position of the data in the packet payload) of
    every CRYPTO frame of an Initial / Handshake packet payload."""
    r = obs.Rd(plain)
    out = []
    while r.left():
        t = r.var()
        if t in (0x00, 0x01):
            continue
        if t in (0x02, 0x03):
            r.var(), r.var()
            cnt = r.var()
            r.var()
            for _ in range(cnt):
                r.var(), r.var()
            if t == 0x03:
                r.var(), r.var(), r.var()
        elif t == 0x06:
            off, ln = r.var(), r.var()
            out.append((off, ln, r.p))
            r.take(ln)
        elif t in (0x1C, 0x1D):
            r.var()
            if t == 0x1C:
                r.var()
            r.take(r.var())
        else:
            raise MachineryError("frame type 0x%x in an Initial/Handshake packet" % t)
    return out


def vn_packet(dcid, scid, versions):
    """RFC 8999 section 6 / RFC 9000 17.2.1."""
    return (bytes([0xC0 | 0x0A]) + b"\x00\x00\x00\x00" + bytes([len(dcid)]) + dcid + bytes([len(scid)]) + scid
            + b"".join(struct.pack(">I", v) for v in versions))


def retry_packet(version, dcid, scid, odcid, token):
    """RFC 9000 17.2.5, RFC 9001 5.8 (RFC 9369 for version 2)."""
    tbits = {v: k for k, v in obs.LONG_TYPES[version].items()}["retry"]
    head = (bytes([0xC0 | (tbits << 4) | 0x05]) + struct.pack(">I", version) + bytes([len(dcid)]) + dcid
            + bytes([len(scid)]) + scid + token)
    pseudo = bytes([len(odcid)]) + odcid + head
    return head + AESGCM(obs.RETRY_KEY[version]).encrypt(obs.RETRY_NONCE[version], b"", pseudo)


# ------------------------------------------------------------------ simulator
class MitmSim(simmod.Sim):
    HANDLES_RETRY = False         # cfg "retry" is played by MitmSim._server_app below, not by the base class
    """cfg keys added: c_suites/s_suites (names), c_alpn/s_alpn (list or None),
    c_versions/s_versions ("v1"/"v2" lists), c_orig, s_ident (identity name),
    c_ident (client certificate identity or None), creq (server requests a client
    certificate), retry (server application demands a Retry)."""

    def __init__(self, A, cfg, seed, pki, tamper=None):
        self.pki = pki
        self.tamper = tamper          # {"msg", "pos", "mask"} or None
        self.cstreams = {}            # (src, space) -> {"chunks": {off: bytes}, "buf": bytearray}
        self.msgs = {}                # (src, space) -> {kind: (start, length)}
        self.scanned = 0
        self.sgen = {}                # (src, space) -> generation of that CRYPTO stream (restarts of the client's TLS)
        self.dggen = {}               # datagram id -> generations when it was emitted
        self.dgsrc = {}
        self.retry_odcid = None
        self.vn_sent = 0
        self.retry_sent = 0
        self.tampered = 0
        super().__init__(A, cfg, seed)
        # Sim._make_client calls load_verify_locations(cafile=tests/pycacert.pem), which clears cadata:
        # the generated CA is added afterwards (the TLS context is only created by connect())
        self.eps["c"].configuration.cadata = self.pki["cadata"]

    # -- configuration -------------------------------------------------------
    def _base_config(self, is_client):
        c = super()._base_config(is_client)
        T, P = self.A["tls"], self.A["packet"].QuicProtocolVersion
        side = "c" if is_client else "s"
        x = self.cfg
        vmap = {"v1": P.VERSION_1, "v2": P.VERSION_2}
        if x.get(side + "_suites"):
            c.cipher_suites = [getattr(T.CipherSuite, n) for n in x[side + "_suites"]]
        if side + "_alpn" in x:
            c.alpn_protocols = None if x[side + "_alpn"] is None else list(x[side + "_alpn"])
        if x.get(side + "_versions"):
            c.supported_versions = [vmap[v] for v in x[side + "_versions"]]
            if is_client:
                c.original_version = vmap.get(x.get("c_orig"))
        if is_client:
            if x.get("c_ident"):
                ident = self.pki["ids"][x["c_ident"]]
                c.certificate, c.private_key = ident.cert, ident.key
        return c

    def _make_server(self, odcid, retry_scid=None):
        c = self._base_config(False)
        ident = self.pki["ids"][self.cfg.get("s_ident") or "fixture"]
        c.certificate, c.private_key, c.certificate_chain = ident.cert, ident.key, list(ident.chain)
        kw = {}
        if self.cfg.get("ticket_store") is not None:
            store = self.cfg["ticket_store"]
            kw = {"session_ticket_fetcher": store.get, "session_ticket_handler": lambda t: store.__setitem__(t.ticket, t)}
        if retry_scid is not None:
            kw["retry_source_connection_id"] = retry_scid
        conn = self.A["connection"].QuicConnection(configuration=c, original_destination_connection_id=odcid, **kw)
        if self.cfg.get("creq"):
            # tls.Context._request_client_certificate ("for test purposes only") has no public API:
            # it is set on the Context right after QuicConnection._initialize created it
            init0 = conn._initialize

            def initialize(peer_cid):
                init0(peer_cid)
                conn.tls._request_client_certificate = True
            conn._initialize = initialize
        self.eps["s"] = conn
        self._stream_count_limit(conn)
        if hasattr(self, "_keycap"):
            self._keycap("s")

    # -- the server application ------------------------------------------------
    def _server_versions(self):
        return [VNAME[v] for v in (self.cfg.get("s_versions") or ["v1", "v2"])]

    def _app_send(self, raw, fate):
        self.dgid += 1
        pkts = self.obs.parse_datagram("s", raw)
        self.emitted[self.dgid] = pkts
        self.net.append({"id": self.dgid, "src": "s", "dst": "c", "data": raw, "to": self.caddr,
                         "from_addr": simmod.SADDR, "pkts": pkts})
        self.ev("net", fate=fate, dg=self.dgid, src="s")

    def _server_app(self, idx):
        """asyncio/server.py before a connection exists.  True when the datagram was consumed."""
        d = self.net[idx]
        pk = d["pkts"][0] if d["pkts"] else None
        if not pk or pk["type"] != "initial" or len(d["data"]) < 1200:
            return False
        if pk["ver"] not in self._server_versions():
            self.net.pop(idx)
            self.vn_sent += 1
            self._app_send(vn_packet(pk["scid"], pk["dcid"], self._server_versions()), "app-vn")
            return True
        if self.cfg.get("retry"):
            if not pk["token"]:
                self.net.pop(idx)
                self.retry_sent += 1
                self.retry_odcid = self.retry_odcid or bytes(pk["dcid"])
                self._app_send(retry_packet(pk["ver"], pk["scid"], RETRY_SCID, bytes(pk["dcid"]), RETRY_TOKEN), "app-retry")
                return True
            if bytes(pk["token"]) != RETRY_TOKEN or self.retry_odcid is None:
                self.net.pop(idx)
                self.ev("net", fate="app-bad-token", dg=d["id"], src="c")
                return True
            self._make_server(self.retry_odcid, retry_scid=RETRY_SCID)
        return False

    # -- the man in the middle -------------------------------------------------
    def _scan(self):
        """Reassemble the CRYPTO streams from every datagram emitted so far.  A client that starts its
        handshake afresh (after Version Negotiation or Retry) sends a NEW ClientHello at offset 0: bytes
        that contradict what the stream already holds start a new generation of that stream."""
        for dgid in range(self.scanned + 1, self.dgid + 1):
            self.scanned = dgid
            if dgid not in self.emitted:
                continue
            src = self.dgsrc.get(dgid)
            if src is None:
                for d in self.net:
                    if d["id"] == dgid:
                        src = d["src"]
                if src is None:
                    continue
                self.dgsrc[dgid] = src
            for p in self.emitted[dgid]:
                if not p.get("ok") or p["type"] not in ("initial", "handshake"):
                    continue
                key = (src, p["space"])
                st = self.cstreams.setdefault(key, {"chunks": {}, "buf": bytearray()})
                for f in p["frames"]:
                    if f["t"] != "crypto" or not f["len"]:
                        continue
                    off, data = f["off"], bytes(f["data"])
                    have = bytes(st["buf"][off:off + len(data)])
                    if have != data[:len(have)]:
                        self.sgen[key] = self.sgen.get(key, 0) + 1
                        st = self.cstreams[key] = {"chunks": {}, "buf": bytearray()}
                        self.msgs.pop(key, None)
                    st["chunks"][off] = data
                grown = True
                while grown:
                    grown = False
                    for off, data in list(st["chunks"].items()):
                        if off <= len(st["buf"]) < off + len(data):
                            st["buf"] += data[len(st["buf"]) - off:]
                            grown = True
                self._parse_messages(src, p["space"], st["buf"])
            self.dggen[dgid] = dict(self.sgen)

    def _parse_messages(self, src, space, buf):
        table = CLIENT_MSG if src == "c" else SERVER_MSG
        found = self.msgs.setdefault((src, space), {})
        o = 0
        while o + 4 <= len(buf):
            n = 4 + int.from_bytes(buf[o + 1:o + 4], "big")
            kind = table.get(buf[o])
            if kind and kind not in found:
                found[kind] = (o, n)
            o += n

    def message_lengths(self):
        return {kind: ln for m in self.msgs.values() for kind, (st, ln) in m.items()}

    def _reseal(self, src, p, plain, original):
        if p["type"] == "initial":
            # Initial keys come from the destination CID of the client's first Initial of this attempt; the
            # candidate that reproduces the genuine packet is the right one
            dcids = []
            for x in (self.obs.initial_dcid, RETRY_SCID if self.retry_sent else None, self.retry_odcid,
                      bytes(p["dcid"]) if src == "c" else None):
                if x and bytes(x) not in dcids:
                    dcids.append(bytes(x))
            cands = [obs.initial_keys(p["ver"], x, src == "c") for x in dcids]
        else:
            ks = self.obs.dir[src].hs or []
            cands = [k for k in ks if k.version == p["ver"]] or [obs.Keys(k.secret, p["ver"], k.suite) for k in ks]
        for k in cands:
            def build(payload):
                return obs.build_packet(k, p["type"], p["ver"], bytes(p["dcid"]), bytes(p["scid"]), p["pn"], payload,
                                        pnlen=p["pnlen"], token=bytes(p["token"]), reserved=p["reserved"])
            if build(bytes(p["plain"])) == original:       # the encryptor reproduces the genuine packet bit for bit
                return build(plain)
        raise MachineryError("man in the middle cannot reproduce the genuine %s packet of %s" % (p["type"], src))

    def _alter(self, d):
        t = self.tamper
        if not t or d["src"] != SRC_OF[t["msg"]]:
            return None
        space = SPACE_OF.get(t["msg"], "h")
        if self.dggen.get(d["id"], {}).get((d["src"], space), 0) != self.sgen.get((d["src"], space), 0):
            return None                               # a datagram of a hello the client has abandoned
        m = self.msgs.get((d["src"], space), {}).get(t["msg"])
        if m is None or t["pos"] >= m[1]:
            return None
        target = m[0] + t["pos"]
        data, changed = bytearray(d["data"]), False
        for p in d["pkts"]:
            if not p.get("ok") or p.get("space") != space or p["type"] not in ("initial", "handshake"):
                continue
            pos = crypto_positions(p["plain"])
            if [(a, b) for a, b, _ in pos] != [(f["off"], f["len"]) for f in p["frames"] if f["t"] == "crypto"]:
                raise MachineryError("CRYPTO frames found by the walker differ from the observer's")
            for off, ln, ppos in pos:
                if off <= target < off + ln:
                    plain = bytearray(p["plain"])
                    plain[ppos + target - off] ^= t["mask"]
                    a, b = p["start"], p["start"] + p["len"]
                    new = self._reseal(d["src"], p, bytes(plain), bytes(d["data"][a:b]))
                    if len(new) != b - a:
                        raise MachineryError("re-protected packet changed size")
                    data[a:b] = new
                    changed = True
        return bytes(data) if changed else None

    def drop(self, idx):
        self._scan()
        return super().drop(idx)

    def dup(self, idx):
        self._scan()
        return super().dup(idx)

    def deliver(self, idx, data=None, from_addr=None, keep=False, note="deliver"):
        self._scan()
        d = self.net[idx]
        if data is None and not keep and d["dst"] == "s" and "s" not in self.eps:
            if self._server_app(idx):
                return
        if data is None and d["dst"] == "c" and d["pkts"] and d["pkts"][0]["type"] in ("vn", "retry"):
            # the client may start its handshake afresh (new Initial keys after a Retry)
            if d["pkts"][0]["type"] == "retry" and self.obs.initial_dcid != RETRY_SCID:
                self.obs.initial_dcid = None
        if data is None:
            alt = self._alter(d)
            if alt is not None:
                self.tampered += 1
                self.ev("tamper", ep=d["dst"], msg=self.tamper["msg"], pos=self.tamper["pos"], mask=self.tamper["mask"],
                        dg=d["id"])
                return super().deliver(idx, data=alt, from_addr=from_addr, keep=keep, note="tampered")
        return super().deliver(idx, data=data, from_addr=from_addr, keep=keep, note=note)


# ---------------------------------------------------------------- projection
def trace_lines(s, init):
    """Event-kind filter and field selection of the raw log (+ the internal reads
    _version and tls.key_schedule.cipher_suite, the key logs)."""
    out = [dict(init, ev="init")]
    hsver = {"c": "", "s": ""}
    for e in s.log:
        if e["k"] == "pkt" and e.get("type") == "handshake":
            hsver[e["ep"]] = {1: "v1", 2: "v2"}.get(e.get("ver"), "")
    for e in s.log:
        if e["k"] == "tamper":
            out.append({"ev": "tamper", "ep": e["ep"], "msg": e["msg"], "pos": e["pos"], "mask": e["mask"]})
        elif e["k"] == "ev" and e["cls"] == "HandshakeCompleted":
            conn = s.eps[e["ep"]]
            ks = conn.tls.key_schedule
            out.append({"ev": "completed", "ep": e["ep"], "version": hsver[e["ep"]],
                        "iversion": VSTR.get(int(conn._version) if conn._version is not None else -1, ""),
                        "cipher": ks.cipher_suite.name if ks is not None else "",
                        "alpn": e["alpn"], "resumed": e["resumed"], "early": e["early"]})
        elif e["k"] == "ev" and e["cls"] == "ConnectionTerminated":
            out.append({"ev": "terminated", "ep": e["ep"], "code": e["code"]})
    for ep in "cs":
        pairs = [[p[0], p[2]] for p in (line.split() for line in s.keylog[ep].getvalue().splitlines()) if len(p) == 3]
        if pairs:
            out.append({"ev": "secrets", "ep": ep, "pairs": pairs})
    out.append({"ev": "end", "quiescent": bool(getattr(s, "quiescent_end", False))})
    return out
