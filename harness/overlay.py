"""Materialise the code under check from /repo's *current working tree*.

An overlay is a copy of /repo/src/aioquic/**/*.py plus _buffer/_crypto
recompiled from the current .c files.  The pre-built *.abi3.so files in the
source tree are never used, so an edit to a C file is seen by every check.
"""
import hashlib
import os
import shutil
import subprocess
import sys
import sysconfig

REPO = os.environ.get("VERIF_REPO", "/repo")
SRC = os.path.join(REPO, "src", "aioquic")


class MachineryError(Exception):
    """Something in the verification machinery (not the code under check) failed."""


def _compile(cfile, out, extra, libs):
    inc = sysconfig.get_paths()["include"]
    cc = "clang" if any("sanitize" in e for e in extra) else "gcc"
    cmd = [cc, "-O1", "-g", "-fPIC", "-shared", "-std=c99",
           "-DPy_LIMITED_API=0x030A0000", "-I" + inc] + extra + [cfile, "-o", out] + libs
    r = subprocess.run(cmd, capture_output=True, text=True)
    if r.returncode != 0:
        # a tree that does not compile is not something a check can judge
        raise MachineryError("C build failed: %s\n%s" % (" ".join(cmd), r.stderr[-2000:]))


def build(workdir, sanitize=False, transform=None):
    """Build an overlay under <workdir>/overlay[-asan]; return the directory to
    put on sys.path / PYTHONPATH.  `transform(name, text) -> text` may rewrite a
    C source before compiling (used by C04 to make intra-struct overflow
    visible)."""
    root = os.path.join(workdir, "overlay-asan" if sanitize else "overlay")
    pkg = os.path.join(root, "aioquic")
    if os.path.isdir(root):
        shutil.rmtree(root)
    shutil.copytree(SRC, pkg, ignore=shutil.ignore_patterns("*.so", "__pycache__", "*.pyc"))
    extra = ["-fsanitize=address,undefined", "-fno-omit-frame-pointer"] if sanitize else []
    for name, libs in (("_buffer", []), ("_crypto", ["-lcrypto"])):
        cfile = os.path.join(pkg, name + ".c")
        if transform is not None:
            text = open(cfile).read()
            new = transform(name, text)
            if new != text:
                open(cfile, "w").write(new)
        _compile(cfile, os.path.join(pkg, name + ".abi3.so"), extra, libs)
    return root


def activate(root):
    """Make `import aioquic` resolve to the overlay in this process."""
    for m in [m for m in sys.modules if m == "aioquic" or m.startswith("aioquic.")]:
        del sys.modules[m]
    sys.path.insert(0, root)
    import aioquic  # noqa
    if not os.path.realpath(aioquic.__file__).startswith(os.path.realpath(root)):
        raise MachineryError("overlay not active: " + aioquic.__file__)


def tree_digest():
    h = hashlib.sha256()
    for d, _, fs in sorted(os.walk(SRC)):
        for f in sorted(fs):
            if f.endswith((".py", ".c", ".pyi")):
                h.update(f.encode())
                h.update(open(os.path.join(d, f), "rb").read())
    return h.hexdigest()[:16]


def asan_env():
    lib = subprocess.run(["clang", "-print-file-name=libclang_rt.asan-x86_64.so"],
                         capture_output=True, text=True).stdout.strip()
    env = dict(os.environ)
    env.update({"LD_PRELOAD": lib, "PYTHONMALLOC": "malloc",
                "ASAN_OPTIONS": "detect_leaks=0:abort_on_error=0:halt_on_error=1:exitcode=99",
                "UBSAN_OPTIONS": "halt_on_error=1:exitcode=98:print_stacktrace=1"})
    return env
