"""C05: byte-level concretisations of the input classes of spec/ConnTotal.tla
(DESIGN.md appendix B.1 datagram level, B.2 frame level; B.3 is c05_tls.py).

`frame_variants` / `dgram_variants` / `tls_variants` list the concretisation
ids of a class (static, so that jobs can be enumerated before anything runs);
`frame_variants` (ops), `dgram_build` (raw datagrams) and `tls_messages`
(message bytes) turn one id into hostile input for the running simulation.
Hostile operations executed by c05_lib.Ctx.run_ops:
  {"op": "pkt", "ep": epoch, "payload": bytes, ...header options}   a protected packet of the key-holding peer
  {"op": "raw", "data": bytes}                                      a datagram nobody authenticated
  {"op": "api", "who": "tgt"|"src", "call": ...}                    an application call (valid prefix inside a class)
  {"op": "gaps", ...}                                               many packets leaving packet-number gaps
Nothing here judges anything."""
import random
import struct

from cryptography.hazmat.primitives.ciphers.aead import AESGCM

from . import c05_tls as T
from .netsim import hostile as H
from .netsim import observer as obs
from .overlay import MachineryError

V = obs.enc_var
M62 = (1 << 62) - 1
BV = [0, 1, 63, 64, 16383, 16384, (1 << 30) - 1, 1 << 30, M62]
PT = {"i": "initial", "h": "handshake", "z": "0rtt", "a": "1rtt"}
MAXPAY = 1330


def sids(role):
    """stream ids as seen from the target: peer = the hostile side."""
    if role == "client":      # hostile peer is the server
        return {"peer_bidi": 1, "peer_uni": 3, "own_bidi": 0, "own_uni": 2, "own_bidi_unopened": 40, "peer_bidi_far": 4001, "peer_uni_far": 4003}
    return {"peer_bidi": 0, "peer_uni": 2, "own_bidi": 1, "own_uni": 3, "own_bidi_unopened": 41, "peer_bidi_far": 4000, "peer_uni_far": 4002}


# field kinds: v = varint, b = fixed bytes, d = varint length + data, r = data to the end, c = 1-byte length + cid
def templates(role):
    s = sids(role)
    pb = s["peer_bidi"]
    return {
        "padding": (0x00, []), "ping": (0x01, []),
        "ack": (0x02, [("v", 0), ("v", 0), ("v", 0), ("v", 0)]),
        "ack_ecn": (0x03, [("v", 0), ("v", 0), ("v", 0), ("v", 0), ("v", 0), ("v", 0), ("v", 0)]),
        "reset_stream": (0x04, [("v", pb), ("v", 0), ("v", 0)]),
        "stop_sending": (0x05, [("v", pb), ("v", 0)]),
        "crypto": (0x06, [("v", 0), ("d", b"\x00")]),
        "new_token": (0x07, [("d", b"token")]),
        "stream": (0x0e, [("v", pb), ("v", 0), ("d", b"x")]),
        "max_data": (0x10, [("v", 1 << 20)]),
        "max_stream_data": (0x11, [("v", pb), ("v", 1 << 20)]),
        "max_streams_bidi": (0x12, [("v", 128)]), "max_streams_uni": (0x13, [("v", 128)]),
        "data_blocked": (0x14, [("v", 0)]), "stream_data_blocked": (0x15, [("v", pb), ("v", 0)]),
        "streams_blocked_bidi": (0x16, [("v", 0)]), "streams_blocked_uni": (0x17, [("v", 0)]),
        "new_connection_id": (0x18, [("v", 8), ("v", 1), ("c", b"\xc1" * 8), ("b", b"\x5a" * 16)]),
        "retire_connection_id": (0x19, [("v", 1)]),
        "path_challenge": (0x1a, [("b", b"\x11" * 8)]), "path_response": (0x1b, [("b", b"\x22" * 8)]),
        "close_transport": (0x1c, [("v", 0), ("v", 0), ("d", b"bye")]),
        "close_app": (0x1d, [("v", 0), ("d", b"bye")]),
        "handshake_done": (0x1e, []),
        "datagram": (0x30, [("r", b"dg")]), "datagram_len": (0x31, [("d", b"dg")]),
    }


def enc_field(kind, val, size=None):
    if kind == "v":
        return V(val, size)
    if kind in ("b", "r"):
        return bytes(val)
    if kind == "d":
        return V(len(val)) + bytes(val)
    if kind == "c":
        return bytes([len(val)]) + bytes(val)
    raise KeyError(kind)


def enc_frame(tpl, override=None, size=None):
    t, fields = tpl
    out = V(t)
    for j, (k, v) in enumerate(fields):
        if override and j in override:
            v = override[j]
        out += enc_field(k, v, size if k == "v" else None)
    return out


def pk(ep, payload, vid, **kw):
    d = {"op": "pkt", "ep": ep, "payload": bytes(payload)}
    d.update(kw)
    return (vid, [d])


def frame_variants(name, ft, asp, ep, role):
    """-> [(vid, [ops])] for a frame-level class in packet epoch ep."""
    tp = templates(role)
    s = sids(role)
    out = []
    if ft:
        tpl = tp[ft]
        base = enc_frame(tpl)
        if asp == "min":
            out.append(pk(ep, base, "min"))
            if tpl[1]:
                out.append(pk(ep, enc_frame(tpl, size=8), "min-8byte-varints"))
            out.append(pk(ep, base + b"\x01", "min+ping"))
        elif asp == "fields":
            for j, (k, v) in enumerate(tpl[1]):
                if k == "v":
                    for b in BV:
                        out.append(pk(ep, enc_frame(tpl, {j: b}), "f%d=%d" % (j, b)))
                elif k == "d":
                    for n in (0, 1, 63, 64, 1000):
                        out.append(pk(ep, enc_frame(tpl, {j: bytes(n)}), "f%d-len%d" % (j, n)))
                elif k == "c":
                    for n in (0, 1, 7, 8, 20):
                        out.append(pk(ep, enc_frame(tpl, {j: b"\xc2" * n}), "f%d-cid%d" % (j, n)))
                elif k == "r":
                    for n in (0, 1, 1000):
                        out.append(pk(ep, enc_frame(tpl, {j: bytes(n)}), "f%d-rest%d" % (j, n)))
                elif k == "b":
                    out.append(pk(ep, enc_frame(tpl, {j: b"\xff" * len(v)}), "f%d-ff" % j))
        elif asp == "trunc":
            full = enc_frame(tpl, size=4) if tpl[1] and all(k in "vd" for k, _ in tpl[1]) and ft not in ("crypto", "stream", "new_token", "close_transport", "close_app", "datagram_len") else base
            for body in {base, full}:
                for cut in range(1, len(body)):
                    out.append(pk(ep, body[:cut], "cut%d/%d" % (cut, len(body))))
            for j, (k, v) in enumerate(tpl[1]):
                if k == "d":          # declared length beyond the packet
                    pre = V(tpl[0]) + b"".join(enc_field(kk, vv) for kk, vv in tpl[1][:j])
                    for ln in (2, 64, 16383, 1 << 30, M62):
                        out.append(pk(ep, pre + V(ln) + b"\x00", "f%d-len-beyond-%d" % (j, ln)))
                if k == "c":
                    pre = V(tpl[0]) + b"".join(enc_field(kk, vv) for kk, vv in tpl[1][:j])
                    for ln in (21, 255, 9):
                        out.append(pk(ep, pre + bytes([ln]) + b"\xc3" * 8 + bytes(16), "f%d-cidlen-%d" % (j, ln)))
        elif asp == "repeat":
            for n in (2, 33, 101, 700):
                m = min(n, max(1, MAXPAY // len(base)))
                out.append(pk(ep, base * m, "x%d%s" % (n, "" if m == n else "-capped%d" % m)))
            out.append(pk(ep, base * (1 + 1600 // len(base)), "oversize-1600"))
            out.append(pk(ep, base * (1 + 9000 // len(base)), "oversize-9000"))
        return out
    # ------------------------------------------------------------ specific classes
    ping = b"\x01"
    if name == "unknown-type-0x1f":
        out += [pk(ep, b"\x1f", "alone"), pk(ep, ping + b"\x1f" + ping, "between-pings"), pk(ep, b"\x1f" + bytes(30), "then-padding")]
    elif name == "unknown-type-0x20":
        out += [pk(ep, b"\x20", "0x20"), pk(ep, b"\x21\x00", "0x21"), pk(ep, b"\x2f", "0x2f"), pk(ep, b"\x32\x00", "0x32"), pk(ep, b"\x3f", "0x3f")]
    elif name == "unknown-type-0x40":
        out += [pk(ep, V(0x40), "0x40"), pk(ep, V(0x4000), "0x4000"), pk(ep, V(0xbaba), "0xbaba"), pk(ep, V(M62), "2^62-1"), pk(ep, V(1 << 30), "2^30"),
                pk(ep, V(0x15228c00) + bytes(8), "ack-frequency-like")]
    elif name == "type-2byte-encoding":
        for t in (0x00, 0x01, 0x02, 0x06, 0x08, 0x1c, 0x1e):
            out.append(pk(ep, V(t, 2) + enc_frame(tp[{0: "padding", 1: "ping", 2: "ack", 6: "crypto", 8: "stream", 0x1c: "close_transport", 0x1e: "handshake_done"}[t]])[1:], "t%02x" % t))
    elif name == "type-8byte-encoding":
        for t, n in ((0x01, "ping"), (0x10, "max_data"), (0x1a, "path_challenge"), (0x1d, "close_app")):
            out.append(pk(ep, V(t, 8) + enc_frame(tp[n])[1:], "t%02x" % t))
            out.append(pk(ep, V(t, 4) + enc_frame(tp[n])[1:], "t%02x-4byte" % t))
    elif name == "type-truncated-varint":
        out += [pk(ep, b"\x40", "2byte-cut"), pk(ep, b"\x80\x00", "4byte-cut"), pk(ep, b"\xc0" + bytes(6), "8byte-cut"), pk(ep, ping + b"\xff", "after-ping")]
    elif name == "empty-payload":
        out += [pk(ep, b"", "empty")]
    elif name == "padding-only":
        out += [pk(ep, bytes(1), "1"), pk(ep, bytes(1000), "1000"), pk(ep, bytes(3), "3")]
    elif name == "ack:first-gt-largest":
        out += [pk(ep, H.f_ack(0, 0, 1), "0-1"), pk(ep, H.f_ack(5, 0, 6), "5-6"), pk(ep, H.f_ack(5, 0, M62), "5-max"), pk(ep, H.f_ack(M62, 0, M62), "max-max"),
                pk(ep, H.f_ack(M62, 0, 0), "largest-max")]
    elif name == "ack:range-count-huge":
        for cnt in (1, 2, 64, 16384, 1 << 30, M62):
            out.append(pk(ep, b"\x02" + V(10) + V(0) + V(cnt) + V(0), "count%d-no-ranges" % cnt))
        out.append(pk(ep, H.f_ack(2000, 0, 0, [(0, 0)] * 300), "300-ranges"))
        out.append(pk(ep, H.f_ack(3, M62, 0), "delay-max"))
    elif name == "ack:gaps-negative":
        out += [pk(ep, H.f_ack(3, 0, 0, [(5, 0)]), "gap-below-zero"), pk(ep, H.f_ack(10, 0, 2, [(0, 9)]), "range-below-zero"),
                pk(ep, H.f_ack(10, 0, 2, [(M62, 0)]), "gap-max"), pk(ep, H.f_ack(10, 0, 2, [(0, M62)]), "len-max"),
                pk(ep, H.f_ack(1, 0, 0, [(0, 0)]), "second-range-negative"), pk(ep, H.f_ack(4, 0, 0, [(0, 0), (0, 0), (0, 0)]), "third-negative")]
    elif name == "ack:ecn-truncated":
        out += [pk(ep, b"\x03" + V(0) + V(0) + V(0) + V(0), "no-counts"), pk(ep, b"\x03" + V(0) + V(0) + V(0) + V(0) + V(1), "one-count"),
                pk(ep, b"\x03" + V(0) + V(0) + V(0) + V(0) + V(1) + V(1) + b"\x40", "third-cut")]
    elif name == "ack:never-sent":
        out += [pk(ep, H.f_ack(100000, 0, 0), "100000"), pk(ep, H.f_ack(100000, 0, 100000), "0..100000"), pk(ep, H.f_ack(M62 - 1, 0, 0), "max-1"),
                pk(ep, H.f_ack(1 << 31, 0, 1 << 31), "0..2^31"), pk(ep, H.f_ack(50, 0, 50, ecn=(M62, M62, M62)), "ecn-max"),
                pk(ep, H.f_ack(3, 0, 3) + H.f_ack(3, 0, 3), "twice")]
    elif name == "crypto:offsets":
        for off, n in ((0, 0), (0, 1), (1, 1), (65535, 1), (600000, 1), (524288, 1), (524287, 1), (M62, 0), (M62, 1), (M62 - 1, 1), (M62 - 1, 2), (1 << 61, 100)):
            out.append(pk(ep, H.f_crypto(off, bytes(n)), "off%d-len%d" % (off, n)))
        out.append(pk(ep, b"\x06" + V(1 << 61) + V(1 << 61) + b"\x00", "sum-2^62"))
        out.append(pk(ep, b"\x06" + V(M62) + V(M62), "both-max"))
    elif name == "crypto:garbage":
        r = random.Random(7)
        out += [pk(ep, H.f_crypto(0, bytes(r.getrandbits(8) for _ in range(n))), "random%d" % n) for n in (4, 5, 60, 1000)]
        out += [pk(ep, H.f_crypto(0, b"\x01\x00\x00\x00"), "ch-empty"), pk(ep, H.f_crypto(0, b"\x02\x00\x00\x00"), "sh-empty"),
                pk(ep, H.f_crypto(0, b"\x14\x00\x00\x00"), "fin-empty"), pk(ep, H.f_crypto(0, b"\xff\xff\xff\xff"), "type255-len-max"),
                pk(ep, H.f_crypto(0, b"\x18\x00\x00\x01\x00"), "keyupdate")]
    elif name == "stream:flags-kinds":
        for kind in ("peer_bidi", "peer_uni", "own_bidi", "own_uni", "own_bidi_unopened", "peer_bidi_far", "peer_uni_far"):
            for t in range(0x08, 0x10):
                sid = s[kind]
                b = bytes([t]) + V(sid) + (V(3) if t & 4 else b"") + (V(2) if t & 2 else b"") + b"ab"
                out.append(pk(ep, b, "%s-t%02x" % (kind, t)))
    elif name == "stream:limits":
        sid = s["peer_bidi"]
        for off, n in ((1048575, 1), (1048576, 0), (1048576, 1), (1048500, 200), (M62, 0), (M62, 1), (M62 - 1, 1), (M62 - 1, 2), (1 << 61, 1), (0, 1300)):
            out.append(pk(ep, H.f_stream(sid, off, bytes(n), with_off=True), "off%d-len%d" % (off, n)))
        out.append(pk(ep, bytes([0x0e]) + V(sid) + V(1 << 61) + V(1 << 61) + b"\x00", "sum-2^62"))
        out.append(pk(ep, b"".join(H.f_stream(4 * k + s["peer_bidi"], 600000, b"x", with_off=True) for k in range(4)), "conn-limit-across-streams"))
        out.append(pk(ep, H.f_stream(4 * 127 + s["peer_bidi"], 0, b"x"), "stream-count-127"))
        out.append(pk(ep, H.f_stream(4 * 128 + s["peer_bidi"], 0, b"x"), "stream-count-128"))
        out.append(pk(ep, H.f_stream(4 * 128 + s["peer_uni"], 0, b"x"), "uni-count-128"))
        out.append(pk(ep, H.f_stream(M62 - 3 + s["peer_bidi"] % 4, 0, b"x"), "sid-max"))
    elif name == "stream:final-size":
        sid = s["peer_bidi"]
        out += [pk(ep, H.f_stream(sid, 0, b"abcd", fin=True) + H.f_stream(sid, 4, b"e", with_off=True), "data-after-fin"),
                pk(ep, H.f_stream(sid, 0, b"abcd", fin=True) + H.f_stream(sid, 0, b"ab", fin=True), "fin-moved-back"),
                pk(ep, H.f_stream(sid, 0, b"abcd") + H.f_reset_stream(sid, 0, 2), "reset-below-received"),
                pk(ep, H.f_reset_stream(sid, 0, 10) + H.f_reset_stream(sid, 0, 11), "reset-twice-different"),
                pk(ep, H.f_reset_stream(sid, M62, M62), "reset-max"),
                pk(ep, H.f_stream(sid, 0, b"", fin=True) + H.f_stream(sid, 0, b"", fin=True), "empty-fin-twice"),
                pk(ep, H.f_stream(sid, 5, b"x", with_off=True, fin=True) + H.f_stream(sid, 0, b"abcde") + H.f_stream(sid, 0, b"", fin=False), "fin-then-fill")]
    elif name == "streamctl:kinds":
        for kind in ("peer_bidi", "peer_uni", "own_bidi", "own_uni", "own_bidi_unopened", "peer_bidi_far", "peer_uni_far"):
            sid = s[kind]
            out += [pk(ep, H.f_reset_stream(sid, 1, 0), "reset-" + kind), pk(ep, H.f_stop_sending(sid, 1), "stop-" + kind),
                    pk(ep, H.f_max_stream_data(sid, 1 << 21), "msd-" + kind), pk(ep, H.f_stream_data_blocked(sid, 5), "sdb-" + kind)]
    elif name == "max_streams:2^60":
        for v in ((1 << 60) - 1, 1 << 60, (1 << 60) + 1, M62, 0):
            out += [pk(ep, H.f_max_streams(v), "bidi-%d" % v), pk(ep, H.f_max_streams(v, uni=True), "uni-%d" % v)]
    elif name == "streams_blocked:2^60":
        for v in ((1 << 60) - 1, 1 << 60, (1 << 60) + 1, M62):
            out += [pk(ep, H.f_streams_blocked(v), "bidi-%d" % v), pk(ep, H.f_streams_blocked(v, uni=True), "uni-%d" % v)]
    elif name == "ncid:cid-lengths":
        for n in (0, 1, 8, 20, 21, 255):
            out.append(pk(ep, b"\x18" + V(8) + V(1) + bytes([n]) + b"\xc4" * min(n, 40) + bytes(16), "len%d" % n))
    elif name == "ncid:rpt-vs-seq":
        for seq, rpt in ((8, 9), (8, 8), (8, 7), (8, 0), (9, 9), (1, 1), (0, 0), (M62, M62), (M62, 0), (20, 20), (3, 8)):
            out.append(pk(ep, H.f_new_cid(seq, rpt, b"\xc5" * 7 + bytes([seq & 0xff])), "seq%d-rpt%d" % (seq, rpt)))
    elif name == "ncid:duplicates":
        c = b"\xc6" * 8
        out += [pk(ep, H.f_new_cid(8, 1, c) + H.f_new_cid(8, 1, c), "exact-twice"),
                pk(ep, H.f_new_cid(8, 1, c) + H.f_new_cid(8, 2, c), "same-seq-higher-rpt"),
                pk(ep, H.f_new_cid(8, 2, c) + H.f_new_cid(8, 1, c), "same-seq-lower-rpt"),
                pk(ep, H.f_new_cid(8, 1, c) + H.f_new_cid(8, 1, b"\xc7" * 8), "same-seq-different-cid"),
                pk(ep, H.f_new_cid(8, 1, c) + H.f_new_cid(9, 2, c), "same-cid-different-seq"),
                pk(ep, H.f_new_cid(8, 1, c) + H.f_new_cid(8, 1, c, b"\x01" * 16), "same-seq-different-token"),
                pk(ep, H.f_new_cid(8, 8, c) + H.f_new_cid(8, 8, c) + H.f_new_cid(8, 9, c), "retire-all-then-again")]
    elif name == "ncid:out-of-order":
        out += [pk(ep, H.f_new_cid(10, 3, b"\xc8" * 8) + H.f_new_cid(9, 2, b"\xc9" * 8) + H.f_new_cid(8, 1, b"\xca" * 8), "10-9-8"),
                pk(ep, H.f_new_cid(12, 12, b"\xc8" * 8) + H.f_new_cid(9, 0, b"\xc9" * 8), "12rpt12-then-9"),
                pk(ep, H.f_new_cid(9, 9, b"\xc8" * 8) + H.f_new_cid(8, 0, b"\xc9" * 8) + H.f_new_cid(8, 0, b"\xc9" * 8), "9rpt9-8-8"),
                pk(ep, H.f_new_cid(1000, 1000, b"\xc8" * 8) + H.f_new_cid(999, 0, b"\xc9" * 8), "1000-999")]
    elif name == "ncid:exceed-limit":
        out += [pk(ep, b"".join(H.f_new_cid(8 + k, 0, bytes([0xd0 + k]) * 8) for k in range(n)), "%d-new-no-retire" % n) for n in (1, 2, 9)]
        out += [pk(ep, b"".join(H.f_new_cid(8 + k, 8 + k, bytes([0xd0, k]) * 4) for k in range(n)), "%d-retiring-each" % n) for n in (9, 40)]
    elif name == "ncid:consume-sequence":
        c = [bytes([0xe0 + k]) * 8 for k in range(12)]
        api = {"op": "api", "who": "tgt", "call": "changecid"}
        out += [("seq2-seq1-change-change-dup22", [pk(ep, H.f_new_cid(9, 0, c[9]), "")[1][0], pk(ep, H.f_new_cid(8, 0, c[8]), "")[1][0], api, api,
                                                   pk(ep, H.f_new_cid(9, 9, c[9]), "")[1][0], api]),
                ("change-until-empty", [api] * 10 + [pk(ep, H.f_new_cid(8, 8, c[8]), "")[1][0], api, api]),
                ("retire-all-no-spare", [pk(ep, H.f_new_cid(20, 20, c[1]), "")[1][0], api, pk(ep, H.f_new_cid(21, 21, c[2]), "")[1][0], api]),
                ("rpt-beyond-available", [api, api, pk(ep, H.f_new_cid(8, 8, c[3]), "")[1][0], pk(ep, H.f_new_cid(8, 8, c[3]), "")[1][0], api, api])]
    elif name == "rcid:unknown-current-retired":
        out += [pk(ep, H.f_retire_cid(k), "seq%d" % k) for k in (0, 1, 7, 8, 100, M62)]
        out += [pk(ep, H.f_retire_cid(1) + H.f_retire_cid(1), "twice"), pk(ep, b"".join(H.f_retire_cid(k) for k in range(1, 8)), "all-but-current"),
                pk(ep, b"".join(H.f_retire_cid(k) for k in range(0, 8)), "all"), pk(ep, H.f_retire_cid(0), "current", use_cid=0),
                pk(ep, H.f_retire_cid(1), "the-one-used", use_cid=1)]
    elif name == "path_challenge:x33":
        out += [pk(ep, b"".join(H.f_path_challenge(bytes([k]) * 8) for k in range(n)), "x%d" % n) for n in (2, 33, 101)]
    elif name == "path_response:unsolicited-dup":
        out += [pk(ep, H.f_path_response(b"\x33" * 8), "unsolicited"), pk(ep, H.f_path_response(b"\x33" * 8) * 2, "unsolicited-twice"),
                pk(ep, H.f_path_response(bytes(8)), "zeros")]
    elif name == "close:reason-not-utf8":
        for app in (False, True):
            for r_ in (b"\xff\xfe\xfd", b"\xc3", b"\xed\xa0\x80", bytes(range(256)), b"\x00" * 10):
                out.append(pk(ep, H.f_close(1, 0, r_, app=app), "%s-%s" % ("app" if app else "tr", r_[:4].hex())))
    elif name == "close:reason-len-beyond":
        for app in (False, True):
            for ln in (4, 64, 16384, M62):
                out.append(pk(ep, (b"\x1d" + V(1) if app else b"\x1c" + V(1) + V(0)) + V(ln) + b"abc", "%s-len%d" % ("app" if app else "tr", ln)))
    elif name == "close:codes":
        for code in (0, 1, 0x0a, 0x10, 0x11, 0xff, 0x100, 0x150, 0x1ff, 0x200, 1 << 30, M62):
            out.append(pk(ep, H.f_close(code, 0, b"r"), "tr-%d" % code))
            out.append(pk(ep, H.f_close(code, 0, b"r", app=True), "app-%d" % code))
        for ft in (0x1f, 0x40, M62):
            out.append(pk(ep, H.f_close(7, ft, b"r"), "ftype-%d" % ft))
        out.append(pk(ep, H.f_close(0) + H.f_close(1) + b"\x01", "close-twice-then-ping"))
        out.append(pk(ep, H.f_close(0, 0, bytes(1200)), "long-reason"))
    elif name == "datagram:sizes":
        for n in (0, 1, 100, 1199, 1200, 1300):
            out.append(pk(ep, H.f_datagram(bytes(n)), "len-%d" % n))
            out.append(pk(ep, H.f_datagram(bytes(n), with_len=False), "nolen-%d" % n))
        out.append(pk(ep, b"\x31" + V(5) + b"ab", "len-beyond"))
    elif name == "hdr:reserved-bits":
        for r_ in ((0x08, 0x10, 0x18) if ep == "a" else (0x04, 0x08, 0x0c)):
            out.append(pk(ep, ping, "reserved-%02x" % r_, reserved=r_))
            out.append(pk(ep, b"\x1f", "reserved-%02x-bad-frame" % r_, reserved=r_))
    elif name == "hdr:fixed-bit-0":
        out += [pk(ep, ping, "fixed0", fixed=0), pk(ep, ping + bytes(40), "fixed0-padded", fixed=0)]
    elif name == "hdr:pn-far-ahead":
        for d_ in (1, 2, 100, 127, 128, 129, 32767, 32768, 1 << 23, 1 << 31, (1 << 32) + 5, 1 << 40, 1 << 61):
            for pl in (1, 4):
                out.append(pk(ep, ping, "ahead%d-pnlen%d" % (d_, pl), pn=("delta", d_), pnlen=pl))
        out.append(pk(ep, ping, "abs-2^62-1", pn=("abs", M62), pnlen=4))
        out.append(pk(ep, ping, "abs-2^62-2", pn=("abs", M62 - 1), pnlen=4))
    elif name == "hdr:pn-far-behind":
        for pl in (1, 2, 4):
            out.append(pk(ep, ping, "pn0-pnlen%d" % pl, pn=("abs", 0), pnlen=pl))
            out.append(pk(ep, ping, "behind200-pnlen%d" % pl, pn=("delta", -200), pnlen=pl, lead=300))
    elif name == "hdr:pn-duplicate":
        out += [("same-pn-twice", [pk(ep, ping, "")[1][0] | {"pn": ("delta", 3)}, pk(ep, ping, "")[1][0] | {"pn": ("delta", 2)}]),
                ("same-pn-different-payload", [pk(ep, ping, "")[1][0] | {"pn": ("delta", 3)}, pk(ep, b"\x1f", "")[1][0] | {"pn": ("delta", 2)}]),
                ("same-datagram-twice", [pk(ep, ping, "")[1][0] | {"repeat_raw": 3}])]
    elif name == "hdr:pnlen-each":
        out += [pk(ep, ping + bytes(8), "pnlen%d" % pl, pnlen=pl) for pl in (1, 2, 3, 4)]
    elif name == "hdr:key-phase-flip":
        out += [pk(ep, ping, "flip-current-keys", key_phase_flip=True), pk(ep, ping, "genuine-update", keygen=1),
                ("update-then-old-keys", [pk(ep, ping, "")[1][0] | {"keygen": 1}, pk(ep, ping, "")[1][0] | {"keygen": 0}]),
                ("two-generations-ahead", [pk(ep, ping, "")[1][0] | {"keygen": 2}]),
                ("update-twice-quickly", [pk(ep, ping, "")[1][0] | {"keygen": 1}, pk(ep, ping, "")[1][0] | {"keygen": 2}, pk(ep, ping, "")[1][0] | {"keygen": 3}])]
    elif name == "hdr:pn-gaps-700":
        out += [("gaps700-step2", [{"op": "gaps", "ep": ep, "n": 700, "step": 2, "payload": ping}]),
                ("gaps260-step3-nonelicit", [{"op": "gaps", "ep": ep, "n": 260, "step": 3, "payload": bytes(2)}]),
                ("gaps300-descending", [{"op": "gaps", "ep": ep, "n": 300, "step": -2, "payload": ping}])]
    elif name == "mix:random-frames":
        for k in range(12):
            out.append(("seed%d" % k, [{"op": "pkt", "ep": ep, "payload": random_frames(random.Random(1000 + k), role, 1 + k % 5)} for _ in range(1 + k % 3)]))
    else:
        raise MachineryError("no concretisation for frame class " + name)
    return out


def random_frames(rnd, role, n, fatal_p=0.0, tp=None, state=None):
    """n frames, mostly acceptable in 1-RTT packets, with boundary values now and then."""
    s = sids(role)
    out = b""
    for _ in range(n):
        c = rnd.random()
        sid = rnd.choice([s["peer_bidi"], s["peer_bidi"] + 4, s["peer_uni"], s["own_bidi"]])
        if rnd.random() < fatal_p:
            tpl = (tp or templates(role))[rnd.choice(sorted(templates(role)))]
            vi = [j for j, (k_, _) in enumerate(tpl[1]) if k_ == "v"]
            f = enc_frame(tpl, {rnd.choice(vi): rnd.choice(BV)} if vi else None)
            out += f[:rnd.randrange(1, len(f) + 1)] if rnd.random() < 0.3 else f
            continue
        if c < 0.25:
            if state is not None:       # a peer whose STREAM frames are consistent: contiguous data, nothing after the final size
                st = state.setdefault("streams", {})
                sid = rnd.choice([s["peer_bidi"], s["peer_uni"]]) + 8      # streams the genuine application does not use
                while st.get(sid, 0) < 0:
                    sid += 4
                o = st.get(sid, 0)
                if o < 0:
                    out += b"\x01"
                    continue
                n_ = rnd.choice([0, 1, 10, 200])
                fin = rnd.random() < 0.15
                back = rnd.choice([0, 0, 0, min(o, 5)])
                out += H.f_stream(sid, o - back, bytes(n_ + back), fin=fin, with_off=True)
                st[sid] = -1 if fin else o + n_
            else:
                off = rnd.choice([0, 0, 1, 5, 100, 1000])
                out += H.f_stream(sid, off, bytes(rnd.choice([0, 1, 10, 200])), fin=rnd.random() < 0.2, with_off=True)
        elif c < 0.35:
            out += H.f_ack(rnd.choice([0, 1, 2, 5, 20]), rnd.choice([0, 100, 1 << 20]), rnd.choice([0, 0, 1]))
        elif c < 0.45:
            out += H.f_max_data(rnd.choice([0, 1 << 20, 1 << 24, M62]))
        elif c < 0.55:
            out += H.f_max_stream_data(s["own_bidi"] if state is None or state.get("opened") else s["peer_bidi"], rnd.choice([0, 1 << 20, M62]))
        elif c < 0.62:
            out += H.f_max_streams(rnd.choice([0, 10, 128, 1000, 1 << 60]), uni=rnd.random() < 0.5)
        elif c < 0.70:
            out += rnd.choice([H.f_data_blocked(5), H.f_stream_data_blocked(sid, 7), H.f_streams_blocked(3), H.f_streams_blocked(3, uni=True)])
        elif c < 0.78:
            # (the target answers a PATH_CHALLENGE to the genuine peer, which closes on the unsolicited response: rare in sessions)
            out += H.f_path_challenge(bytes(rnd.getrandbits(8) for _ in range(8))) if state is None or rnd.random() < 0.03 else H.f_data_blocked(rnd.choice([0, 9, M62]))
        elif c < 0.84:
            if state is not None:       # a peer that issues connection IDs in order and retires old ones as it goes
                state["seq"] = seq = state.get("seq", 7) + 1
                out += H.f_new_cid(seq, max(0, seq - rnd.choice([2, 3, 6])), seq.to_bytes(8, "big"))
            else:
                seq = rnd.choice([8, 9, 10, 11, 12, 30])
                out += H.f_new_cid(seq, rnd.choice([0, 0, 1, seq]), bytes([0xb0 + seq % 16]) * 8)
        elif c < 0.88:
            if state is not None:
                state["ret"] = r_ = state.get("ret", 1) + 1
                out += H.f_retire_cid(r_) if r_ < 7 else b"\x01"
            else:
                out += H.f_retire_cid(rnd.choice([1, 2, 3, 4, 5]))
        elif c < 0.92:
            if state is not None:
                st = state.setdefault("streams", {})
                u = s["peer_uni"] + 8
                if rnd.random() < 0.5 and st.get(u, 0) >= 0:
                    out += H.f_reset_stream(u, 3, st.get(u, 0))
                    st[u] = -1
                elif state.get("opened"):
                    out += H.f_stop_sending(s["own_bidi"], 4)
                else:
                    out += b"\x01"
            else:
                out += H.f_reset_stream(sid, 3, rnd.choice([0, 1, 1200])) if rnd.random() < 0.5 else H.f_stop_sending(rnd.choice([s["own_bidi"], s["peer_bidi"]]), 4)
        elif c < 0.96:
            out += b"\x01" + bytes(rnd.choice([0, 1, 30]))
        else:
            out += H.f_datagram(bytes(rnd.choice([0, 5, 100]))) if state is None or state.get("datagram") else b"\x01"
            if role == "client":
                out += H.f_new_token(b"t" * rnd.choice([1, 30]))
    return out


# ------------------------------------------------------------------ datagram level
DGRAM_VIDS = {
    "empty": ["empty"], "one-byte": ["00", "40", "80", "c0", "ff", "7f"],
    "rand-small": ["len2", "len7", "len8", "len9", "len20", "len21", "len22", "len40", "len100"],
    "rand-1199": ["long", "short", "any"], "rand-1200": ["long", "short", "any", "any2", "initial-shaped"], "rand-1201": ["long", "short", "any"],
    "rand-65535": ["long", "short", "zeros"],
    "long-fixed-bit-0": ["random-rest", "protected-initial", "protected-handshake"],
    "long-unknown-version": ["1a2a3a4a", "ffffffff", "00000002", "draft29", "v2-as-v1-type"],
    "long-dcid-len": ["0", "20", "21", "255", "255-short", "cut"], "long-scid-len": ["0", "20", "21", "255", "255-short", "cut"],
    "long-trunc-each-field": ["cut%d" % i for i in (1, 2, 4, 5, 6, 10, 14, 15, 16, 23, 24, 25, 26, 27, 28)],
    "initial-token-len": ["0", "1", "2000", "2000-short", "max", "16383"],
    "initial-length-field": ["0", "1", "3", "19", "20", "remaining", "remaining+1", "max", "remaining-1"],
    "initial-lt-1200": ["1199", "50", "crypto-1199", "two-coalesced-1199"],
    "initial-unknown-keys": ["wrong-dcid-keys", "random-keys", "v2-keys"],
    "zerortt-unknown-keys": ["1200", "small", "coalesced-after-initial"], "handshake-unknown-keys": ["1200", "small", "coalesced-after-initial"],
    "handshake-unknown-dcid": ["random-dcid", "empty-dcid"],
    "vn-none": ["none"], "vn-unsupported": ["one", "grease"], "vn-many": ["many-unsupported", "300"], "vn-odd-length": ["odd1", "odd2", "odd3"],
    "vn-current": ["current-only", "current-and-other"], "vn-other-supported": ["v2", "v2-twice-datagrams", "v2-and-unknown"],
    "vn-wrong-dcid": ["random-dcid", "wrong-scid"],
    "retry-short": ["tag15", "tag0", "no-token", "hdr-only"], "retry-bad-tag": ["zeros", "flipped"],
    "retry-valid": ["token8", "token0", "token1000", "v2"], "retry-valid-twice": ["same", "different"], "retry-wrong-dcid": ["random-dcid", "scid-equals-odcid"],
    "short-lt-cid": ["1", "4", "8"], "short-unknown-cid": ["random", "zeros"], "short-fixed-bit-0": ["known-cid", "random"],
    "short-unknown-keys": ["small", "1200", "21"], "stateless-reset-shaped": ["real-token", "random-token", "real-token-20-bytes", "real-token-long", "own-token"],
    "genuine-trunc": None, "genuine-byte-insert": None, "genuine-byte-remove": None, "genuine-bitflip": None,
    "genuine-concat": ["a+b", "b+a", "a+a", "a+own", "all"], "genuine-coalesce-wrong-order": ["reversed", "rotated", "first-twice"],
    "genuine-replay": ["last-twice", "all-again", "own-reflected", "first-again"], "genuine-plus-garbage": ["tail-random", "tail-ff", "head-random", "tail-long-header", "tail-short-header"],
}
CUTS = [1, 5, 6, 7, 14, 15, 16, 22, 23, 24, 25, 26, 27, 28, 30, 40, 41, 42, 43, 44, 45, 46, 60]
POS = [0, 1, 2, 4, 5, 6, 13, 14, 15, 22, 23, 24, 25, 26, 27, 28, 29, 30, 45, 46, 47]


def dgram_variants(name, thorough):
    v = DGRAM_VIDS[name]
    if v is not None:
        return list(v)
    out = []
    for which in ("first", "last", "prev"):
        if name == "genuine-trunc":
            cuts = CUTS + ["-1", "-16", "-17", "half"]
            if thorough:
                cuts = sorted(set(range(1, 80)) | set(range(80, 1300, 13))) + ["-1", "-16", "-17", "half"]
            out += ["%s:%s" % (which, c) for c in cuts]
        else:
            ps = POS + ["-1", "half"]
            if thorough:
                ps = list(range(0, 64)) + list(range(64, 1300, 37)) + ["-1", "half"]
            out += ["%s:%s" % (which, p) for p in ps]
    return out


def retry_packet(version, dcid, scid, token, odcid):
    first = 0xf0 if version == obs.V1 else 0xc0
    body = bytes([first]) + struct.pack(">I", version) + bytes([len(dcid)]) + dcid + bytes([len(scid)]) + scid + token
    tag = AESGCM(obs.RETRY_KEY[version]).encrypt(obs.RETRY_NONCE[version], b"", bytes([len(odcid)]) + odcid + body)
    return body + tag


def long_hdr(first, version, dcid, scid, dl=None, sl=None):
    return bytes([first]) + struct.pack(">I", version) + bytes([len(dcid) if dl is None else dl]) + dcid + bytes([len(scid) if sl is None else sl]) + scid


def dgram_build(ctx, name, vid):
    """-> list of raw datagrams for the target (uses the running simulation: CIDs, keys, genuine datagrams)."""
    rnd = ctx.rnd
    rb = lambda n: bytes(rnd.getrandbits(8) for _ in range(n))     # noqa: E731
    dcid, scid = ctx.dcid(), ctx.scid()
    ver = ctx.version()
    ptype_first = {"initial": 0xc0, "0rtt": 0xd0, "handshake": 0xe0} if ver == obs.V1 else {"initial": 0xd0, "0rtt": 0xe0, "handshake": 0xf0}

    def prot(ptype, payload, keys=None, pad=None, **kw):
        return ctx.protect(ptype, payload, keys=keys, pad_to=pad, **kw)
    if name == "empty":
        return [b""]
    if name == "one-byte":
        return [bytes([int(vid, 16)])]
    if name == "rand-small":
        return [rb(int(vid[3:]))]
    if name in ("rand-1199", "rand-1200", "rand-1201", "rand-65535"):
        n = int(name[5:])
        b = bytearray(rb(n)) if vid != "zeros" else bytearray(n)
        if vid == "long":
            b[0] |= 0xc0
        elif vid == "short":
            b[0] = (b[0] & 0x7f) | 0x40
        elif vid == "initial-shaped":
            b[0:7 + len(dcid)] = long_hdr(0xc3, ver, dcid, b"")[:7 + len(dcid)]
        return [bytes(b)]
    if name == "long-fixed-bit-0":
        if vid == "random-rest":
            return [long_hdr(0x80, ver, dcid, scid) + rb(1200)]
        return [prot("initial" if vid == "protected-initial" else "handshake", b"\x01" + bytes(30), pad=1200, fixed=0)]
    if name == "long-unknown-version":
        v = {"1a2a3a4a": 0x1a2a3a4a, "ffffffff": 0xffffffff, "00000002": 2, "draft29": 0xff00001d, "v2-as-v1-type": obs.V2 if ver == obs.V1 else obs.V1}[vid]
        return [(long_hdr(0xc0 | rnd.randrange(16), v, dcid, scid) + b"\x00" + V(1100) + rb(1200))[:1200]]
    if name in ("long-dcid-len", "long-scid-len"):
        n = 255 if vid.startswith("255") else 8 if vid == "cut" else int(vid)
        body = rb(n) if vid not in ("255-short", "cut") else rb(3)
        if name == "long-dcid-len":
            h = bytes([0xc0]) + struct.pack(">I", ver) + bytes([n]) + body + bytes([len(scid)]) + scid
        else:
            h = bytes([0xc0]) + struct.pack(">I", ver) + bytes([len(dcid)]) + dcid + bytes([n]) + body
        if vid in ("255-short", "cut"):
            return [h[:6 + (len(dcid) + 1 if name == "long-scid-len" else 0) + 3]]
        return [(h + b"\x00" + V(1000) + rb(1200))[:1200 if n < 200 else 1500]]
    if name == "long-trunc-each-field":
        g = prot("initial", H.f_crypto(0, b"\x01\x00\x00\x00") + bytes(40), pad=1200)
        return [g[:int(vid[3:])]]
    if name == "initial-token-len":
        h = long_hdr(0xc0, ver, dcid, scid)
        if vid == "max":
            return [(h + V(M62) + rb(1300))[:1200]]
        if vid == "2000-short":
            return [(h + V(2000) + rb(1300))[:1200]]
        n = int(vid)
        if n in (0, 1):
            return [prot("initial", b"\x01" + bytes(30), pad=1200, token=rb(n))]
        return [prot("initial", b"\x01" + bytes(30), pad=1200, token=rb(n))]
    if name == "initial-length-field":
        h = long_hdr(0xc3, ver, dcid, scid) + b"\x00"
        rest = rb(1200 - len(h) - 2)
        n = {"remaining": len(rest), "remaining+1": len(rest) + 1, "remaining-1": len(rest) - 1, "max": M62}.get(vid)
        if n is None:
            n = int(vid)
        lv = V(n, 2) if n < 16384 else V(n)
        return [(h + lv + rest)[:1200 + (8 if vid == "max" else 0)]]
    if name == "initial-lt-1200":
        if vid == "crypto-1199":
            return [prot("initial", H.f_crypto(0, ctx.tmpl("ch")[:900]), pad=1199)]
        if vid == "two-coalesced-1199":
            return [(prot("initial", b"\x01" + bytes(20)) + prot("initial", b"\x01" + bytes(20)) + bytes(1199))[:1199]]
        return [prot("initial", b"\x01" + bytes(20), pad=int(vid))]
    if name == "initial-unknown-keys":
        if vid == "wrong-dcid-keys":
            k = obs.initial_keys(ver, rb(8), ctx.src == "c")
        elif vid == "v2-keys":
            k = obs.initial_keys(obs.V2 if ver == obs.V1 else obs.V1, ctx.sim.obs.initial_dcid or dcid, ctx.src == "c")
            k = obs.Keys(k.secret, ver, "aes128")
        else:
            k = obs.Keys(rb(32), ver, "aes128")
        return [prot("initial", H.f_crypto(0, ctx.tmpl("ch")[:600]), keys=k, pad=1200)]
    if name in ("zerortt-unknown-keys", "handshake-unknown-keys"):
        pt = "0rtt" if name[0] == "z" else "handshake"
        k = obs.Keys(rb(32), ver, "aes128")
        if vid == "coalesced-after-initial":
            return [(prot("initial", b"\x01" + bytes(30)) + prot(pt, b"\x01" + bytes(30), keys=k) + bytes(1200))[:1200]]
        return [prot(pt, b"\x01" + bytes(30), keys=k, pad=1200 if vid == "1200" else None)]
    if name == "handshake-unknown-dcid":
        k = obs.Keys(rb(32), ver, "aes128")
        return [prot("handshake", b"\x01" + bytes(30), keys=k, dcid=rb(8) if vid == "random-dcid" else b"")]
    if name.startswith("vn-"):
        d, s_ = dcid, scid
        if name == "vn-wrong-dcid":
            d, s_ = (rb(8), scid) if vid == "random-dcid" else (dcid, rb(8))
        vs = {"vn-none": [], "vn-unsupported": [0x1a2a3a4a] if vid == "one" else [0x0a0a0a0a, 0xff00001d],
              "vn-many": [0x1a2a3a4a + i for i in range(300 if vid == "300" else 12)], "vn-odd-length": [0x1a2a3a4a],
              "vn-current": [ver] if vid == "current-only" else [0x1a2a3a4a, ver],
              "vn-other-supported": [obs.V2 if ver == obs.V1 else obs.V1] + ([0x1a2a3a4a] if vid == "v2-and-unknown" else []),
              "vn-wrong-dcid": [obs.V2 if ver == obs.V1 else obs.V1]}[name]
        b = long_hdr(0x80 | rnd.randrange(128), 0, d, s_) + b"".join(struct.pack(">I", v) for v in vs)
        if name == "vn-odd-length":
            b += bytes(int(vid[3:]))
        return [b, b] if vid == "v2-twice-datagrams" else [b]
    if name.startswith("retry-"):
        odcid = ctx.odcid()
        new = b"\x52" * 8
        v = ver
        if name == "retry-short":
            h = long_hdr(0xf0 if ver == obs.V1 else 0xc0, ver, dcid, new)
            return [{"tag15": h + b"tok" + bytes(15), "tag0": h, "no-token": h + bytes(16), "hdr-only": h[:7]}[vid]]
        if name == "retry-bad-tag":
            g = bytearray(retry_packet(v, dcid, new, b"token123", odcid))
            if vid == "zeros":
                g[-16:] = bytes(16)
            else:
                g[-1] ^= 1
            return [bytes(g)]
        if name == "retry-valid":
            if vid == "v2":
                v = obs.V2 if ver == obs.V1 else obs.V1
            tok = {"token8": b"token123", "token0": b"", "token1000": rb(1000), "v2": b"token123"}[vid]
            return [retry_packet(v, dcid, new, tok, odcid)]
        if name == "retry-valid-twice":
            a = retry_packet(v, dcid, new, b"token123", odcid)
            b = a if vid == "same" else retry_packet(v, dcid, b"\x53" * 8, b"token456", new)
            return [a, b]
        if name == "retry-wrong-dcid":
            if vid == "random-dcid":
                return [retry_packet(v, rb(8), new, b"token123", odcid)]
            return [retry_packet(v, dcid, odcid, b"token123", odcid)]
    if name == "short-lt-cid":
        return [bytes([0x40]) + dcid[:int(vid) - 1]]
    if name == "short-unknown-cid":
        return [bytes([0x40 | rnd.randrange(64)]) + (rb(8) if vid == "random" else bytes(8)) + rb(40)]
    if name == "short-fixed-bit-0":
        return [bytes([rnd.randrange(64)]) + (dcid if vid == "known-cid" else rb(8)) + rb(40)]
    if name == "short-unknown-keys":
        k = obs.Keys(rb(32), ver, "aes128")
        n = {"small": 1, "1200": 1160, "21": 0}[vid]
        return [prot("1rtt", b"\x01" + bytes(n), keys=k)]
    if name == "stateless-reset-shaped":
        tok = ctx.reset_token(own=(vid == "own-token")) if vid != "random-token" else rb(16)
        n = {"real-token": 40, "random-token": 40, "real-token-20-bytes": 4, "real-token-long": 1184, "own-token": 40}[vid]
        return [bytes([0x40 | rnd.randrange(64)]) + rb(n) + tok]
    # --- mutations of genuine datagrams
    pool = ctx.genuine()
    own = ctx.genuine(own=True)
    if not pool:
        pool = own or [rb(1200)]

    def pick(which):
        return {"first": pool[0], "last": pool[-1], "prev": pool[-2] if len(pool) > 1 else pool[0]}[which]

    def position(tok, g):
        if tok == "half":
            return len(g) // 2
        p = int(tok)
        return max(0, len(g) + p) if p < 0 else min(p, len(g) - 1)
    if name in ("genuine-trunc", "genuine-byte-insert", "genuine-byte-remove", "genuine-bitflip"):
        which, tok = vid.split(":")
        g = pick(which)
        p = position(tok, g)
        if name == "genuine-trunc":
            return [g[:p]]
        if name == "genuine-byte-insert":
            return [g[:p] + rb(1) + g[p:]]
        if name == "genuine-byte-remove":
            return [g[:p] + g[p + 1:]]
        b = bytearray(g)
        b[p] ^= 1 << rnd.randrange(8)
        return [bytes(b)]
    if name == "genuine-concat":
        a, b = pool[0], pool[-1]
        return [{"a+b": a + b, "b+a": b + a, "a+a": a + a, "a+own": a + (own[-1] if own else a), "all": b"".join(pool)}[vid]]
    if name == "genuine-coalesce-wrong-order":
        parts = ctx.genuine_packets()
        if len(parts) < 2:
            parts = parts + parts
        if vid == "reversed":
            return [b"".join(reversed(parts))]
        if vid == "rotated":
            return [b"".join(parts[1:] + parts[:1])]
        return [parts[0] + b"".join(parts)]
    if name == "genuine-replay":
        if vid == "last-twice":
            return [pool[-1], pool[-1]]
        if vid == "all-again":
            return list(pool) + list(reversed(pool))
        if vid == "own-reflected":
            return list(own) or [pool[0]]
        return [pool[0]]
    if name == "genuine-plus-garbage":
        g = pool[-1]
        return [{"tail-random": g + rb(33), "tail-ff": g + b"\xff" * 100, "head-random": rb(20) + g,
                 "tail-long-header": g + long_hdr(0xc0, ver, dcid, scid) + b"\x00" + V(500) + rb(20),
                 "tail-short-header": g + bytes([0x40]) + dcid + rb(30)}[vid]]
    raise MachineryError("no concretisation for datagram class %s/%s" % (name, vid))


# -------------------------------------------------------------------- TLS level
EXPECTED = {("client", "first"): "sh", ("client", "ee"): "ee", ("client", "cert"): "cert", ("client", "cv"): "cv", ("client", "fin"): "fin",
            ("client", "complete"): "nst", ("client", "confirmed"): "nst", ("server", "first"): "ch", ("server", "ch"): "ch",
            ("server", "fin"): "fin", ("server", "confirmed"): "nst"}
NEXT_MSG = {"sh": "ee", "ee": "cert", "cert": "cv", "cv": "fin", "fin": "nst", "ch": "fin", "nst": "nst"}


def tls_messages(name, tm, role):
    """[(vid, message bytes)] for message-level classes; tm: dict of template messages (this connection's or the reference)."""
    m, _, kind = name.partition(":")
    if m in T.MSG_TYPE and kind:
        g = tm[m if m != "fin" else ("fin_s" if role == "client" else "fin_c")]
        if kind in ("genuine", "wrong-type-byte", "len-plus-1", "len-minus-1", "trunc-body", "trailing", "empty-body"):
            return T.generic(kind, g)
        if m in ("ch", "sh"):
            return T.hello_mut(kind, g, tickets=tm.get("tickets"))
        if m == "ee":
            return T.ee_mut(kind, g)
        if m == "cert":
            return T.cert_mut(kind, g, tm.get("other_cert"))
        if m == "cv":
            return T.cv_mut(kind, g)
        if m == "fin":
            return T.fin_mut(kind, g)
        if m == "nst":
            return T.nst_mut(kind, g)
    if name == "keyupdate":
        return [("req%s" % b.hex(), T.msg(T.KEYUPDATE, b)) for b in (b"\x00", b"\x01", b"\x02", b"", b"\x00\x00")]
    if name == "unknown-type":
        return [("type%d" % t, T.msg(t, body)) for t in (0, 3, 6, 7, 9, 12, 21, 22, 23, 25, 99, 254, 255) for body in (b"", b"\x00" * 5)]
    if name == "certreq-synthetic":
        return [("valid", T.certreq()), ("context", T.certreq(b"\x01\x02")), ("no-sigalgs", T.certreq(exts=[])),
                ("sigalgs-empty", T.certreq(exts=[[T.X_SIGALGS, T.op(2, b"")]])), ("sigalgs-unknown", T.certreq(exts=[[T.X_SIGALGS, T.op(2, b"\xfa\xfa")]])),
                ("sigalgs-odd", T.certreq(exts=[[T.X_SIGALGS, T.op(2, b"\x08")]])), ("unknown-ext", T.certreq(exts=[[0xfafa, b"zz"], [T.X_SIGALGS, T.op(2, b"\x08\x04")]])),
                ("dup-sigalgs", T.certreq(exts=[[T.X_SIGALGS, T.op(2, b"\x08\x04")]] * 2)), ("ext-len-beyond", T.msg(T.CERTREQ, b"\x00" + T.op(2, b"\x00\x0d\x00\x30\x00")))]
    if name == "certreq-empty":
        return [("empty", T.msg(T.CERTREQ, b"")), ("ctx-only", T.msg(T.CERTREQ, b"\x00")), ("short-exts", T.msg(T.CERTREQ, b"\x00\x00")),
                ("ctx-len-beyond", T.msg(T.CERTREQ, b"\x09\x00"))]
    if name == "end-of-early-data":
        return [("empty", T.msg(T.EOED, b"")), ("with-body", T.msg(T.EOED, b"\x00"))]
    if name == "message-huge-length":
        return [("len-%d" % n, bytes([t]) + n.to_bytes(3, "big") + bytes(50)) for t in (1, 2, 8, 11, 20) for n in (0xffffff, 0x010000, 70000)]
    return None


TLS_STREAM = {"split-every-byte": ["two-frames-mid", "two-frames-1", "two-frames-last", "byte-frames", "three-packets", "byte-packets-head"],
              "out-of-order": ["second-half-first", "last-byte-first", "reverse-thirds"],
              "overlapping": ["same-data", "different-data", "superset-after", "subset-after"],
              "offset-gap": ["gap1000", "gap1", "near-max"],
              "crypto-buffer-exceeded": ["600000", "524289", "many-small-gaps"],
              "wrong-epoch:i": ["expected", "next"], "wrong-epoch:h": ["expected", "next"], "wrong-epoch:a": ["expected", "next"],
              "two-messages-one-frame": ["expected+next", "expected+garbage", "expected+expected", "next+expected"]}


def tls_variants(name, ref, role):
    if name in TLS_STREAM:
        return list(TLS_STREAM[name])
    ms = tls_messages(name, ref, role)
    if ms is None:
        raise MachineryError("no concretisation for TLS class " + name)
    seen, out = set(), []
    for vid, _ in ms:
        if vid not in seen:
            seen.add(vid)
            out.append(vid)
    return out
