"""C05 run-time: drive a real connection pair (netsim) to a phase of
spec/ConnTotal.tla, apply one concretised hostile input, keep calling the API
until termination is reported (bounded), and project the raw run log to the
lines TraceConnTotal judges.  Python drives and projects; TLC judges."""
import functools
import random

from . import c05_classes as K
from . import c05_tls as T
from .netsim import hostile as H
from .netsim import observer as obs
from .netsim import sim as simmod
from .overlay import MachineryError

A = None
REF = None            # template TLS messages of a reference handshake (fallback when a connection has not produced one yet)
BASE_CFG = {"idle": 1.5}
DEAD = ("closepending", "hsclosepending", "hsclosing", "closing", "draining")
INTERNAL_READS = ["_packet_number (hostile peer continues the genuine packet-number sequence)", "_peer_cid / host_cid / _host_cids (CIDs and reset tokens the peer knows)",
                  "_spaces[epoch].ack_queue (was the hostile packet accepted)", "_crypto_streams[epoch].receiver.starting_offset() (how much CRYPTO data was consumed)",
                  "_state, _close_pending, tls.state, _handshake_complete, _handshake_confirmed (phase projection)"]


def setup():
    """Once per process, after the overlay is active."""
    global A, REF
    A = simmod.load_modules()
    cfgm = A["configuration"]
    if not getattr(cfgm.load_pem_private_key, "_c05_cached", False):
        cached = functools.lru_cache(maxsize=8)(cfgm.load_pem_private_key)      # parsing the test key costs 90 ms; the key object is immutable
        cached._c05_cached = True
        cfgm.load_pem_private_key = cached
    store = {}
    s = Sim5(A, dict(BASE_CFG, ticket_store=store), seed=424242)
    try:
        s.connect()
        ok = s.run_fair(until=lambda: all(ep in s.eps and s.eps[ep]._handshake_confirmed for ep in "cs") and not s.net)
        s.run_fair(max_steps=30)
        REF = s.templates()
        REF["tickets"] = sorted(store)[:1] or [b"unknown-ticket"]
        missing = [k for k in ("ch", "sh", "ee", "cert", "cv", "fin_s", "fin_c", "nst") if k not in REF]
        if missing or not ok:
            raise MachineryError("reference handshake did not yield %s" % missing)
        REF["store"] = dict(store)
        import os
        pem = open(os.path.join(simmod.TESTS, "pycacert.pem"), "rb").read()
        from cryptography import x509
        from cryptography.hazmat.primitives.serialization import Encoding
        REF["other_cert"] = x509.load_pem_x509_certificate(pem).public_bytes(Encoding.DER)
    finally:
        s.close()
    return REF


class Sim5(simmod.Sim):
    """netsim Sim + an archive of the raw bytes of every emitted datagram."""

    def __init__(self, *a, **kw):
        self.raw = {}
        super().__init__(*a, **kw)

    def _after(self, ep):
        super()._after(ep)
        for d in self.net:
            if d["id"] not in self.raw:
                self.raw[d["id"]] = (d["src"], d["data"])

    def crypto_streams(self):
        out = {}
        for dg in sorted(self.emitted):
            src = self.raw.get(dg, (None,))[0]
            for p in self.emitted[dg]:
                if not p.get("ok") or "frames" not in p:
                    continue
                for f in p["frames"]:
                    if f["t"] == "crypto":
                        buf = out.setdefault((src, p["space"]), bytearray())
                        end = f["off"] + f["len"]
                        if len(buf) < end:
                            buf.extend(bytes(end - len(buf)))
                        buf[f["off"]:end] = f["data"]
        return out

    def templates(self):
        st = self.crypto_streams()
        tm = {}
        names = {T.CH: "ch", T.SH: "sh", T.EE: "ee", T.CERT: "cert", T.CV: "cv", T.NST: "nst"}
        for (src, space), buf in st.items():
            for t, m in T.split_messages(bytes(buf)):
                if t == T.FIN:
                    tm.setdefault("fin_" + src, m)
                elif t in names:
                    tm.setdefault(names[t], m)
        return tm


class Ctx:
    def __init__(self, sim, role, phase, rnd, cur_ep):
        self.sim, self.role, self.phase, self.rnd, self.cur_ep = sim, role, phase, rnd, cur_ep
        self.tgt = "c" if role == "client" else "s"
        self.src = "s" if role == "client" else "c"
        self.accepted = False
        self.hostile_dgrams = 0
        self.live = phase
        self._odcid = None

    # -- what the key-holding peer knows
    def conn(self, who):
        return self.sim.eps[who]

    def version(self):
        c = self.conn(self.src)
        return int(c._version or A["packet"].QuicProtocolVersion.VERSION_1)

    def dcid(self):
        return bytes(self.conn(self.src)._peer_cid.cid)

    def scid(self):
        return bytes(self.conn(self.src).host_cid)

    def odcid(self):
        return bytes(self._odcid or self.sim.obs.initial_dcid or b"")

    def addr(self):
        return self.sim.caddr if self.src == "c" else simmod.SADDR

    def reset_token(self, own=False):
        c = self.conn(self.tgt if own else self.src)
        for h in c._host_cids:
            if h.stateless_reset_token:
                return bytes(h.stateless_reset_token)
        return bytes(16)

    def tm(self):
        tm = dict(REF)
        tm.update(self.sim.templates())
        return tm

    def tmpl(self, name):
        return self.tm()[name]

    def genuine(self, own=False):
        who = self.tgt if own else self.src
        return [d for i, (s, d) in sorted(self.sim.raw.items()) if s == who]

    def genuine_packets(self):
        out = []
        for i, (s, d) in sorted(self.sim.raw.items()):
            if s != self.src:
                continue
            for p in self.sim.emitted.get(i, []):
                if "start" in p and p.get("len"):
                    out.append(d[p["start"]:p["start"] + p["len"]])
        return out[-4:]

    def keys(self, ptype):
        self.sim._feed_keys()
        try:
            k, phase = H.keys_for(self.sim, self.src, ptype)
        except Exception:
            k, phase = None, 0
        return k, phase

    def protect(self, ptype, payload, keys=None, pad_to=None, dcid=None, pn=None, key_phase=None, **kw):
        """One protected packet from the hostile side (does not touch the connection objects except for the packet number counter)."""
        conn = self.conn(self.src)
        phase = 0
        if keys is None:
            keys, phase = self.keys(ptype)
        if keys is None:
            keys = obs.Keys(bytes(self.rnd.getrandbits(8) for _ in range(32)), self.version(), "aes128")
        if pn is None:
            pn = conn._packet_number
            conn._packet_number += 1
            sp = obs.SPACE_OF[ptype]
            if pn > self.sim.obs.dir[self.src].largest[sp]:
                self.sim.obs.dir[self.src].largest[sp] = pn
        self.last_pn = pn
        if len(payload) + 20 > 16000:
            payload = payload[:15900]
        if len(payload) < 4 and kw.get("pnlen") and len(payload) + kw["pnlen"] < 4:
            payload = payload + bytes(4 - len(payload) - kw["pnlen"])
        raw = obs.build_packet(keys, ptype, self.version(), self.dcid() if dcid is None else dcid, self.scid(), pn, payload,
                               key_phase=phase if key_phase is None else key_phase, **kw)
        if pad_to and len(raw) < pad_to:
            raw += bytes(pad_to - len(raw))
        return raw

    def crypto_offset(self, ep):
        conn = self.conn(self.tgt)
        E = A["tls"].Epoch
        e = {"i": E.INITIAL, "h": E.HANDSHAKE, "a": E.ONE_RTT, "z": E.ONE_RTT}[ep]
        st = getattr(conn, "_crypto_streams", None)
        if not st or e not in st:
            return 0
        return st[e].receiver.starting_offset()

    # -- hostile operations
    def inject_raw(self, raw, tag):
        if self.sim.terminated[self.tgt]:
            return
        self.hostile_dgrams += 1
        self.sim.ev("inject", src=self.src, ptype="raw", tag=tag, plen=len(raw), pn=-1, accepted=False)
        self.sim.inject(self.tgt, raw, self.addr(), tag)

    def send_pkt(self, ep, payload, tag, pn=None, keygen=None, key_phase_flip=False, use_cid=None, lead=None, repeat_raw=1, **kw):
        if self.sim.terminated[self.tgt]:
            return
        ptype = K.PT[ep]
        conn = self.conn(self.src)
        base = conn._packet_number
        if lead:
            self.send_pkt(ep, b"\x01", tag + "-lead", pn=("delta", lead))
            base = base + lead
        pnv = None
        if pn is not None:
            kind, v = pn
            pnv = v if kind == "abs" else max(0, base + v)
            if kind == "delta" and 0 <= v < 1000:
                conn._packet_number = max(conn._packet_number, pnv + 1)
                sp = obs.SPACE_OF[ptype]
                self.sim.obs.dir[self.src].largest[sp] = max(self.sim.obs.dir[self.src].largest[sp], pnv)
        keys, kp = None, None
        if keygen is not None or key_phase_flip:
            self.sim._feed_keys()
            d = self.sim.obs.dir[self.src]
            if ptype == "1rtt" and d.app:
                k = d.app[d.gen][0]
                for _ in range(keygen or 0):
                    k = k.next_generation()
                keys = k
                kp = (d.gen + (keygen or 0)) % 2
                if key_phase_flip:
                    kp = 1 - kp
        dcid = None
        if use_cid is not None:
            hc = self.conn(self.tgt)._host_cids
            dcid = bytes(hc[min(use_cid, len(hc) - 1)].cid) if hc else None
        pad = 1200 if (ptype == "initial" and self.src == "c") else None
        raw = self.protect(ptype, payload, keys=keys, pad_to=pad, dcid=dcid, pn=pnv, key_phase=kp, **kw)
        pnn = self.last_pn
        for _ in range(repeat_raw):
            if self.sim.terminated[self.tgt]:
                return
            self.hostile_dgrams += 1
            rec = self.sim.ev("inject", src=self.src, ptype=ptype, tag=tag, plen=len(payload), pn=min(pnn, 1 << 30), accepted=False)
            E = A["tls"].Epoch
            e = {"initial": E.INITIAL, "handshake": E.HANDSHAKE, "0rtt": E.ONE_RTT, "1rtt": E.ONE_RTT}[ptype]
            sp = getattr(self.conn(self.tgt), "_spaces", {}).get(e)
            before = bool(sp is not None and pnn in sp.ack_queue)
            self.sim.inject(self.tgt, raw, self.addr(), tag)
            sp = getattr(self.conn(self.tgt), "_spaces", {}).get(e)
            rec["accepted"] = bool(sp is not None and pnn in sp.ack_queue) and not before
            self.accepted = self.accepted or rec["accepted"]

    def send_crypto(self, ep, off, data, tag, chunk=1100):
        if not data:
            self.send_pkt(ep, H.f_crypto(off, b""), tag)
        for i in range(0, len(data), chunk):
            self.send_pkt(ep, H.f_crypto(off + i, data[i:i + chunk]), tag)

    def run_ops(self, ops, tag):
        for o in ops:
            if self.sim.terminated[self.tgt]:
                return
            if o["op"] == "pkt":
                kw = {k: v for k, v in o.items() if k not in ("op", "ep", "payload")}
                self.send_pkt(o["ep"], o["payload"], tag, **kw)
            elif o["op"] == "raw":
                self.inject_raw(o["data"], tag)
            elif o["op"] == "api":
                who = self.tgt if o["who"] == "tgt" else self.src
                self.sim.api(who, o["call"])
            elif o["op"] == "gaps":
                conn = self.conn(self.src)
                base = conn._packet_number + (2 * o["n"] * abs(o["step"]) if o["step"] < 0 else 0)
                for k in range(o["n"]):
                    self.send_pkt(o["ep"], o["payload"], tag, pn=("abs", base + k * o["step"]))
                conn._packet_number = max(conn._packet_number, base + o["n"] * abs(o["step"]) + 1)
            else:
                raise MachineryError("unknown hostile op %r" % (o,))


# --------------------------------------------------------------------- phases
def observe(conn):
    tls = getattr(conn, "tls", None)
    return {"qs": conn._state.name, "cp": bool(conn._close_pending), "tls": tls.state.name if tls is not None else "none",
            "hc": bool(conn._handshake_complete), "hcf": bool(conn._handshake_confirmed)}


def base_phase(role, phase):
    if phase in ("closepending", "closing", "draining"):
        return "confirmed"
    if phase in ("hsclosepending", "hsclosing"):
        return "first" if role == "client" else "fin"
    return phase


def drive(sim, role, phase, rnd, cur_ep):
    s = sim
    ctx = Ctx(s, role, phase, rnd, cur_ep)
    live = base_phase(role, phase)
    ctx.live = live
    s.connect()
    ctx._odcid = bytes(s.net[0]["pkts"][0]["dcid"])

    def to(dst):
        while any(d["dst"] == dst for d in s.net):
            s.deliver(next(i for i, d in enumerate(s.net) if d["dst"] == dst))
    if role == "client":
        if live in ("first", "ee", "cert", "cv", "fin"):
            s.deliver(0)                                   # the server answers; its flight stays in the network
            if live != "first":
                st = s.crypto_streams()
                sh = bytes(st[("s", "i")])
                hs = T.split_messages(bytes(st[("s", "h")]))
                if [t for t, _ in hs[:4]] != [T.EE, T.CERT, T.CV, T.FIN]:
                    raise MachineryError("unexpected server handshake flight %r" % [t for t, _ in hs])
                ctx.send_pkt("i", H.f_crypto(0, sh), "prefix")
                off = 0
                for _, m in hs[:{"ee": 0, "cert": 1, "cv": 2, "fin": 3}[live]]:
                    ctx.send_crypto("h", off, m, "prefix")
                    off += len(m)
        elif live == "complete":
            s.deliver(0)
            to("c")
        else:
            s.run_fair(until=lambda: all(ep in s.eps and s.eps[ep]._handshake_confirmed for ep in "cs") and not s.net)
    else:
        if live in ("first", "ch"):
            s._make_server(ctx._odcid)
            if live == "ch":
                ch = s.templates()["ch"]
                ctx.send_pkt("i", H.f_crypto(0, ch[:len(ch) // 2]), "prefix")
        elif live == "fin":
            s.deliver(0)
            to("c")                                        # the client completes; its Finished stays in the network
        else:
            s.run_fair(until=lambda: all(ep in s.eps and s.eps[ep]._handshake_confirmed for ep in "cs") and not s.net)
    conn = s.eps[ctx.tgt]
    if not (role == "server" and live == "first"):
        s._after(ctx.tgt)          # settle: events queued by the last transmit are delivered to the application before the hostile input
    if phase in ("closepending", "hsclosepending"):
        _, r = s._guard(ctx.tgt, "close", lambda: conn.close(error_code=0, reason_phrase="bye"))
        s.ev("api", ep=ctx.tgt, call="close", code=0, raised=r or "")
    elif phase in ("closing", "hsclosing"):
        s.api(ctx.tgt, "close", 0)
    elif phase == "draining":
        s.api(ctx.src, "close", 0)
        to(ctx.tgt)
    ctx.accepted = False
    ctx.hostile_dgrams = 0
    return ctx


# ------------------------------------------------------------ applying a class
def apply_class(ctx, cls, vid):
    lvl, name, ep = cls["lvl"], cls["name"], cls["ep"]
    tag = "%s:%s" % (lvl, name)
    if lvl == "f":
        for v, ops in K.frame_variants(name, cls["ft"], cls["asp"], ep, ctx.role):
            if v == vid:
                return ctx.run_ops(ops, tag)
        raise MachineryError("unknown variant %s of %s" % (vid, tag))
    if lvl == "d":
        for raw in K.dgram_build(ctx, name, vid):
            ctx.inject_raw(raw, tag)
        return
    # TLS level
    tm = ctx.tm()
    ce = ctx.cur_ep
    off = ctx.crypto_offset(ce)
    role = ctx.role
    if name in K.TLS_STREAM:
        tm["fin"] = tm["fin_s" if role == "client" else "fin_c"]
        en = K.EXPECTED[(role, ctx.live)]
        e, n = tm[en], tm[K.NEXT_MSG[en]]
        if ctx.live == "ch" and off:
            e = e[off:] if len(e) > off else e
        L = len(e)
        cr = H.f_crypto
        if name == "split-every-byte":
            k = {"two-frames-mid": L // 2, "two-frames-1": 1, "two-frames-last": L - 1}.get(vid)
            if k is not None:
                ctx.send_pkt(ce, cr(off, e[:k]) + cr(off + k, e[k:]), tag)
            elif vid == "byte-frames":
                head = min(L, 200)
                frames = [cr(off + i, e[i:i + 1]) for i in range(head)] + ([cr(off + head, e[head:])] if L > head else [])
                pkt = b""
                for f in frames:
                    if len(pkt) + len(f) > 1100:
                        ctx.send_pkt(ce, pkt, tag)
                        pkt = b""
                    pkt += f
                ctx.send_pkt(ce, pkt, tag)
            elif vid == "three-packets":
                a, b = L // 3, 2 * L // 3
                for lo, hi in ((0, a), (a, b), (b, L)):
                    ctx.send_pkt(ce, cr(off + lo, e[lo:hi]), tag)
            else:
                for i in range(min(6, L)):
                    ctx.send_pkt(ce, cr(off + i, e[i:i + 1]), tag)
                ctx.send_crypto(ce, off + min(6, L), e[min(6, L):], tag)
        elif name == "out-of-order":
            if vid == "second-half-first":
                parts = [(L // 2, L), (0, L // 2)]
            elif vid == "last-byte-first":
                parts = [(L - 1, L), (0, L - 1)]
            else:
                a, b = L // 3, 2 * L // 3
                parts = [(b, L), (a, b), (0, a)]
            for lo, hi in parts:
                ctx.send_pkt(ce, cr(off + lo, e[lo:hi]), tag)
        elif name == "overlapping":
            k = L // 2
            if vid == "same-data":
                ctx.send_pkt(ce, cr(off, e[:k + 10]), tag)
                ctx.send_pkt(ce, cr(off + max(0, k - 10), e[max(0, k - 10):]), tag)
            elif vid == "different-data":
                ctx.send_pkt(ce, cr(off, e[:k]), tag)
                ctx.send_pkt(ce, cr(off + max(0, k - 10), b"\xee" * (k - max(0, k - 10)) + e[k:]), tag)
            elif vid == "superset-after":
                ctx.send_pkt(ce, cr(off + 5, e[5:20]), tag)
                ctx.send_crypto(ce, off, e, tag)
            else:
                ctx.send_crypto(ce, off, e, tag)
                ctx.send_pkt(ce, cr(off + 5, e[5:20]), tag)
        elif name == "offset-gap":
            if vid == "gap1000":
                ctx.send_crypto(ce, off + 1000, e, tag)
            elif vid == "gap1":
                ctx.send_crypto(ce, off + 1, e[1:], tag)
            else:
                ctx.send_pkt(ce, cr(K.M62 - min(L, 1000), e[:min(L, 1000)]), tag)
        elif name == "crypto-buffer-exceeded":
            if vid == "many-small-gaps":
                fr = [cr(off + 2 * i + 1, b"x") for i in range(900)]
                for i in range(0, len(fr), 250):
                    ctx.send_pkt(ce, b"".join(fr[i:i + 250]), tag)
            else:
                ctx.send_pkt(ce, cr(off + int(vid), b"x"), tag)
        elif name.startswith("wrong-epoch:"):
            x = name[-1]
            ctx.send_crypto(x, ctx.crypto_offset(x), e if vid == "expected" else n, tag)
        elif name == "two-messages-one-frame":
            data = {"expected+next": e + n, "expected+garbage": e + b"\x63\x00\x00\x02zz", "expected+expected": e + e, "next+expected": n + e}[vid]
            ctx.send_crypto(ce, off, data, tag)
        else:
            raise MachineryError("no TLS stream class " + name)
        return
    for v, m in K.tls_messages(name, tm, role) or []:
        if v == vid:
            break
    else:
        m = dict(K.tls_messages(name, dict(REF), role) or []).get(vid)
        if m is None:
            raise MachineryError("unknown variant %s of %s" % (vid, tag))
    if ctx.live == "ch" and off and len(m) > off:
        m = m[off:]
    ctx.send_crypto(ce, off, m, tag)


# ------------------------------------------------------------------- aftermath
def aftermath(sim, tgt, steps):
    """Keep the world going after the hostile input: genuine datagrams in flight are delivered, timers
    fire on time, until every endpoint reported termination or the step bound is reached."""
    sim.run_fair(max_steps=steps)
    sim.run_closing(max_steps=20)
    if not all(sim.terminated[ep] for ep in sim.eps):
        sim.blackout(max_steps=steps)


CALL_OF = {"rx": "receive_datagram", "tx": "datagrams_to_send", "gt": "get_timer", "timer": "handle_timer", "ev": "next_event"}


def project(sim, start, init, post):
    """Raw run log from index `start` -> lines for TraceConnTotal (field selection only).  The API calls the
    driver makes in one go on one endpoint (receive_datagram or handle_timer, then next_event..., datagrams_to_send,
    get_timer) form one line: parallel lists `calls` / `raised` / `term`."""
    role_of = {"c": "client", "s": "server"}
    out = [init]
    n_raised_logged = 0
    cur = init.get("sig", "")
    grp = None

    def flush():
        if grp is not None:
            out.append(grp)
    for e in sim.log[start:]:
        k = e["k"]
        if k == "inject":
            cur = e["tag"]
            continue
        if k not in CALL_OF:
            if k == "api":
                flush()
                grp = None
            continue
        raised = e.get("raised", "") or ""
        if raised:
            n_raised_logged += 1
        role = role_of[e["ep"]]
        if grp is None or k in ("rx", "timer") or grp["role"] != role or len(grp["calls"]) >= 24:
            flush()
            grp = {"ev": "calls", "role": role, "calls": [], "raised": [], "term": [], "hostile": False,
                   "cls": cur if init["lvl"] == "v" else "", "unlogged": False}
        grp["calls"].append(CALL_OF[k])
        grp["raised"].append(raised)
        grp["term"].append(bool(k == "ev" and e.get("cls") == "ConnectionTerminated"))
        grp["hostile"] = grp["hostile"] or bool(k == "rx" and e.get("forged"))
    flush()
    # exceptions the simulator caught in calls it does not log (get_timer inside timer_value)
    extra = [r for r in sim.raised[post.get("raised0", 0):] if r[1] in CALL_OF.values()]
    for ep, what, r in extra[n_raised_logged:][:3]:
        out.append({"ev": "calls", "role": role_of[ep], "calls": [what], "raised": [r], "term": [False], "hostile": False,
                    "cls": cur if init["lvl"] == "v" else "", "unlogged": True})
    end = {"ev": "end"}
    end.update({k: v for k, v in post.items() if k != "raised0"})
    out.append(end)
    return out


def limbs(code):
    return code >> 30 if code < (1 << 60) else (1 << 30), code & ((1 << 30) - 1)


def run_job(job):
    """One (role, phase, class, variant) edge on a fresh pair of real connections."""
    role, phase, cls, vid = job["role"], job["phase"], job["cls"], job["vid"]
    rnd = random.Random(job["seed"])
    cfg = dict(BASE_CFG, ticket_store=dict(REF["store"]))
    s = Sim5(A, cfg, seed=job["seed"] & 0xffffff)
    try:
        ctx = drive(s, role, phase, rnd, job["cur_ep"])
        tgt = ctx.tgt
        conn = s.eps[tgt]
        pre = observe(conn)
        raised0 = len(s.raised)
        start = len(s.log)
        n_ev0 = sum(1 for e in s.log if e["k"] == "ev" and e["ep"] == tgt)
        apply_class(ctx, cls, vid)
        mid = observe(conn)
        sent = sum(len(e["dgs"]) for e in s.log[start:] if e["k"] == "tx" and e["ep"] == tgt)
        events = sum(1 for e in s.log[start:] if e["k"] == "ev" and e["ep"] == tgt)
        END = ("CLOSING", "DRAINING", "TERMINATED")
        closed = (mid["qs"] in END or mid["cp"]) and not (pre["qs"] in END or pre["cp"])
        aftermath(s, tgt, job.get("steps", 40))
        code = next((e["code"] for e in s.log[start:] if e["k"] == "ev" and e["ep"] == tgt and e["cls"] == "ConnectionTerminated"), -1)
        hi, lo = limbs(code) if code >= 0 else (0, 0)
        code = int(code)
        moved = any(mid[k] != pre[k] for k in ("tls", "hc", "hcf"))
        post = {"closed": closed, "sent": sent, "events": events, "accepted": bool(ctx.accepted), "moved": moved,
                "term": bool(s.terminated[tgt]), "code_hi": hi, "code_lo": lo, "has_code": code >= 0, "raised0": raised0}
        init = {"ev": "init", "role": role, "phase": phase, "lvl": cls["lvl"], "name": cls["name"], "ep": cls["ep"], "sig": job["sig"],
                "qs": pre["qs"], "cp": pre["cp"], "tls": pre["tls"], "hc": pre["hc"], "hcf": pre["hcf"]}
        lines = project(s, start, init, post)
        summary = {"outcome": "Close" if closed else ("Progress" if (ctx.accepted or moved or events) else "Ignored"),
                   "code": code, "hostile": ctx.hostile_dgrams, "raised": [list(r) for r in s.raised[raised0:][:3]],
                   "mid": mid, "n": sum(len(ln["calls"]) for ln in lines if ln["ev"] == "calls")}
        return {"lines": lines, "summary": summary}
    finally:
        s.close()


# ------------------------------------------------------- (V) random hostile sessions
def run_genuine(job):
    """No hostile input at all: genuine traffic of two applications over a network that drops, duplicates, delays and reorders
    (netsim script profiles); the property covers those arrival orders too - every API call must still return normally."""
    from .netsim import script
    rnd = random.Random(job["seed"])
    lines = []
    for i in range(job["n"]):
        prof = rnd.choice(["dup", "dup", "mixed", "lossy", "migrate", "tailloss"])
        cfg = dict(BASE_CFG, idle=rnd.choice([5.0, 60.0]), cc=rnd.choice(["reno", "cubic"]))
        sc = script.random_script(rnd, rnd.choice([40, 80, 120]), script.PROFILES[prof])
        s = script.run(A, cfg, sc, seed=rnd.randrange(1 << 24), hs_adv=rnd.random() < 0.3)
        init = {"ev": "init", "role": "client", "phase": "session", "lvl": "v", "name": "genuine", "ep": "-", "sig": "v:genuine-reordering:" + prof,
                "qs": "", "cp": False, "tls": "", "hc": False, "hcf": False}
        post = {"closed": False, "sent": 0, "events": 0, "accepted": False, "moved": False, "term": all(s.terminated[ep] for ep in s.eps),
                "code_hi": 0, "code_lo": 0, "has_code": False, "raised0": 0}
        lines += project(s, 0, init, post)
    return {"lines": lines, "hostile": 0, "sessions": job["n"]}


def run_session(job):
    """Long seeded random hostile sessions: a key-holding peer on either side mixes random frame
    sequences, raw garbage and mutated genuine datagrams with the genuine traffic of an application."""
    rnd = random.Random(job["seed"])
    lines, hostile, sessions = [], 0, 0
    from .netsim import script
    while hostile < job["quota"] and sessions < 400:
        sessions += 1
        dgram = rnd.random() < 0.7
        s = Sim5(A, dict(BASE_CFG, idle=rnd.choice([5.0, 60.0]), ticket_store=dict(REF["store"]), datagram=1200 if dgram else None),
                 seed=rnd.randrange(1 << 24))
        try:
            hs_adv = rnd.random() < 0.3
            s.connect()
            if not hs_adv:
                s.run_fair(until=lambda: all(ep in s.eps and s.eps[ep]._handshake_confirmed for ep in "cs") and not s.net)
            else:
                s.deliver(0)
            start = 0
            ex = script.Exec(s)
            ctxs = {"client": Ctx(s, "client", "session", rnd, "a"), "server": Ctx(s, "server", "session", rnd, "a")}
            ctxs["client"]._odcid = ctxs["server"]._odcid = bytes(s.obs.initial_dcid or b"")
            fatal_p = rnd.choice([0.0, 0.0, 0.0, 0.005, 0.02])
            fst = {"client": {"datagram": dgram, "opened": not hs_adv}, "server": {"datagram": dgram, "opened": not hs_adv}}
            if not hs_adv:
                ex.step(["write", "c", 0, 20, False])
                ex.step(["write", "s", 1, 20, False])
                s.run_fair(max_steps=20)
            for _ in range(job["steps"]):
                if all(s.terminated[ep] for ep in s.eps):
                    break
                role = rnd.choice(["client", "server"])
                c = ctxs[role]
                if c.tgt not in s.eps or c.src not in s.eps or s.terminated[c.tgt]:
                    continue
                x = rnd.random()
                if x < 0.45:
                    ep = "a" if not hs_adv or rnd.random() < 0.6 else rnd.choice("iha")
                    if ep == "a":
                        fr = K.random_frames(rnd, role, rnd.randrange(1, 6), fatal_p=fatal_p, state=fst[role])
                    else:
                        fr = b"".join(rnd.choice([b"\x01", bytes(3), H.f_ack(rnd.choice([0, 1, 2]), 0, 0), H.f_crypto(rnd.choice([0, 5000]), b"")])
                                      for _ in range(rnd.randrange(1, 4)))
                    c.send_pkt(ep, fr, "v:random-frames")
                elif x < 0.52:
                    nm = rnd.choice(["rand-small", "rand-1200", "short-unknown-cid", "short-unknown-keys", "stateless-reset-shaped", "long-unknown-version",
                                     "genuine-bitflip", "genuine-trunc", "genuine-concat", "genuine-replay", "vn-unsupported", "handshake-unknown-keys"])
                    vid = rnd.choice(K.dgram_variants(nm, False))
                    for raw in K.dgram_build(c, nm, vid):
                        c.inject_raw(raw, "v:" + nm)
                elif x < 0.535:
                    name = rnd.choice(["hdr:pn-far-ahead", "hdr:pn-duplicate", "hdr:key-phase-flip", "hdr:pnlen-each", "ack:never-sent", "ncid:out-of-order",
                                       "rcid:unknown-current-retired", "stream:final-size", "streamctl:kinds", "datagram:sizes", "path_challenge:x33"])
                    vs = K.frame_variants(name, "", "", "a", role)
                    c.run_ops(rnd.choice(vs)[1], "v:" + name)
                else:
                    st = script.random_script(rnd, 1, script.PROFILES["mixed"])
                    if st:
                        ex.step(st[0])
            hostile += ctxs["client"].hostile_dgrams + ctxs["server"].hostile_dgrams
            aftermath(s, "c", 60)
            init = {"ev": "init", "role": "client", "phase": "session", "lvl": "v", "name": "session", "ep": "-", "sig": "v:session",
                    "qs": "", "cp": False, "tls": "", "hc": False, "hcf": False}
            post = {"closed": False, "sent": 0, "events": 0, "accepted": False, "moved": False, "term": all(s.terminated[ep] for ep in s.eps),
                    "code_hi": 0, "code_lo": 0, "has_code": False, "raised0": 0}
            lines += project(s, start, init, post)
        finally:
            s.close()
    return {"lines": lines, "hostile": hostile, "sessions": sessions}
