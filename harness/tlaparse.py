"""Reader of TLA+ values as TLC prints them, and of -simulate behaviour files.

ints, strings, TRUE/FALSE, model values -> int/str/bool/str
<<a, b>>            -> tuple
{a, b}              -> frozenset (list when elements are unhashable)
[f |-> v, ...]      -> dict
(k :> v @@ k :> v)  -> dict
a..b                -> frozenset(range)
"""
import re

_TOK = re.compile(r'\s*(<<|>>|\|->|:>|@@|\.\.|[\[\]{}(),]|"(?:[^"\\]|\\.)*"|-?\d+|[A-Za-z_][A-Za-z0-9_!]*)')


def tokenize(s):
    pos, out = 0, []
    s = s.strip()
    while pos < len(s):
        m = _TOK.match(s, pos)
        if not m:
            raise ValueError("cannot tokenize TLA+ value at: %r" % s[pos:pos + 40])
        out.append(m.group(1))
        pos = m.end()
    return out


class _P:
    def __init__(self, toks):
        self.t, self.i = toks, 0

    def peek(self):
        return self.t[self.i] if self.i < len(self.t) else None

    def eat(self, x=None):
        v = self.t[self.i]
        if x is not None and v != x:
            raise ValueError("expected %s got %s at %d" % (x, v, self.i))
        self.i += 1
        return v

    def value(self):
        v = self.atom()
        if self.peek() == "..":
            self.eat()
            hi = self.atom()
            return frozenset(range(v, hi + 1))
        return v

    def atom(self):
        t = self.eat()
        if t == "<<":
            xs = []
            while self.peek() != ">>":
                xs.append(self.value())
                if self.peek() == ",":
                    self.eat()
            self.eat(">>")
            return tuple(xs)
        if t == "{":
            xs = []
            while self.peek() != "}":
                xs.append(self.value())
                if self.peek() == ",":
                    self.eat()
            self.eat("}")
            try:
                return frozenset(xs)
            except TypeError:
                return xs
        if t == "[":
            d = {}
            while self.peek() != "]":
                k = self.eat()
                self.eat("|->")
                d[k] = self.value()
                if self.peek() == ",":
                    self.eat()
            self.eat("]")
            return d
        if t == "(":
            d = {}
            while True:
                k = self.value()
                self.eat(":>")
                d[k] = self.value()
                if self.peek() == "@@":
                    self.eat()
                    continue
                break
            self.eat(")")
            return d
        if t[0] == '"':
            return bytes(t[1:-1], "utf-8").decode("unicode_escape")
        if t == "TRUE":
            return True
        if t == "FALSE":
            return False
        if re.match(r"-?\d+$", t):
            return int(t)
        return t


def parse_value(s):
    p = _P(tokenize(s))
    v = p.value()
    if p.i != len(p.t):
        raise ValueError("trailing tokens in TLA+ value")
    return v


def fun(v):
    """View a TLA+ function value (dict, or tuple = function on 1..n) as a dict."""
    if isinstance(v, dict):
        return v
    return {i + 1: x for i, x in enumerate(v)}


def parse_state_text(text):
    """'/\\ a = 1\\n/\\ b = ...' -> {var: value}"""
    out = {}
    parts = re.split(r"^/\\ ", text.strip(), flags=re.M)
    for part in parts:
        part = part.strip()
        if not part:
            continue
        name, val = part.split(" = ", 1) if " = " in part.split("\n")[0] else part.split("=", 1)
        out[name.strip()] = parse_value(val)
    return out


def parse_behaviour_file(path):
    """-simulate file=...: returns the list of states (dicts) of one behaviour."""
    text = open(path).read()
    states = []
    for m in re.finditer(r"^STATE_\d+ ==\s*\n(.*?)(?=^\\\*|^====|\Z)", text, flags=re.M | re.S):
        states.append(parse_state_text(m.group(1)))
    return states
