"""C20 helpers: paired runs of one netsim scenario with logging off / on.

PairSim extends the simulator (by subclassing, netsim itself is unchanged apart
from the additive cfg option "keycap"): a harness-side counter of the packets an
endpoint hands to `_payload_received` (trusted signal for the qlog accounting)
and, for the HTTP/3 scenarios, real H3Connection objects on top of the two
QuicConnections with a tiny scripted application (requests, responses, pushes,
trailers, datagrams, and raw hostile bytes from a peer that does not speak
HTTP/3 properly).

Nothing here decides anything: every run is projected mechanically to a list of
step records (strings), the four runs of a scenario are zipped, and TLC
(TraceLogPair) judges every zipped line with the relations of LogPair.
aioquic is imported lazily (after the overlay is active).
"""
import hashlib
import io
import json
import zlib
from enum import Enum

from . import c16_h3 as C16
from .netsim import script as scriptmod
from .netsim import sim as simmod
from .overlay import MachineryError

# the four ways a scenario is run.  In all of them the observer gets its keys from the harness-side
# capture (netsim/sim.py Sim._keycap: "keylog": False, "keycap": True), so that the run with logging
# off really has secrets_log_file=None and the observation never depends on what the code under check
# writes into its secrets log; "secrets": True gives the configuration a secrets_log_file of its own.
MODES = [("off", {"qlog": False, "secrets": False}),
         ("qlog", {"qlog": True, "secrets": False}),
         ("keys", {"qlog": False, "secrets": True}),
         ("both", {"qlog": True, "secrets": True})]
MODE_NAMES = [m[0] for m in MODES]
EPOCHS = ["INITIAL", "HANDSHAKE", "ZERO_RTT", "ONE_RTT"]
QLOG_TYPES = ["initial", "handshake", "0rtt", "1rtt"]


def fix_stream_order():
    """aioquic re-queues the streams that sent in one round by iterating a *set of QuicStream objects*
    (`_write_application`: `self._streams_queue.extend(sent)`), i.e. in an order that depends on
    memory addresses: two runs with identical inputs - logging off in both - may put the data of
    different streams into the same packet.  That freedom has nothing to do with logging, so the
    harness pins it: streams hash by their stream id (identity comparison is unchanged)."""
    from aioquic.quic.stream import QuicStream
    QuicStream.__hash__ = lambda self: hash(self.stream_id)


def crc(b):
    return "%d:%08x" % (len(b), zlib.crc32(bytes(b)))


def hdig(headers):
    return "%d:%s" % (len(headers), hashlib.sha1(repr([(bytes(n), bytes(v)) for n, v in headers]).encode()).hexdigest()[:10])


def body(n, salt=0):
    return bytes((5 * i + 11 * salt + 3) % 251 for i in range(n))


# ------------------------------------------------------------------ HTTP/3 material
REQ = [(b":method", b"GET"), (b":scheme", b"https"), (b":authority", b"localhost"), (b":path", b"/")]
POST = [(b":method", b"POST"), (b":scheme", b"https"), (b":authority", b"localhost"), (b":path", b"/upload")]
RSP = [(b":status", b"200"), (b"server", b"sim")]
EXTRA = [
    [],                                                        # 0 plain
    [(b"x-bin", b"\xff\xfe")],                                 # 1 value that is not UTF-8
    [(b"x-" + b"a" * 3000, b"1")],                             # 2 huge name
    [(b"x-big", b"v" * 5000)],                                 # 3 huge value
    [(b"cookie", b"a=\xe9\x80")],                              # 4 truncated UTF-8 sequence
    [(b"x-lone", b"\xed\xa0\x80"), (b"x-c1", b"\x80\x81")],    # 5 encoded surrogate, stray continuation bytes
    [(b"X-Upper", b"1")],                                      # 6 invalid name (receiver's error path)
    [(b"x-\xff\xfe", b"1")],                                   # 7 name that is not UTF-8
    [(b"x-nl", b"a\nb")],                                      # 8 invalid value
    [(b"x-" + b"n" * 70000, b"\xfe" * 300)],                   # 9 name larger than a flight, value not UTF-8
    [(b"accept", b"*/*"), (b"user-agent", b"sim/1"), (b"accept", b"*/*")],   # 10 repeats (QPACK dynamic table)
    [(b"x-latin", "café".encode("latin1")), (b"x-utf8", "café ☃".encode("utf8"))],   # 11
    [(b"x-empty", b""), (b"x-sp", b"a b")],                    # 12
]
TRAILERS = [[(b"x-checksum", b"abc")], [(b"x-tr", b"\xfd\xfc")], [(b":late", b"1")]]
PUSH_REQ = [[(b":method", b"GET"), (b":scheme", b"https"), (b":authority", b"localhost"), (b":path", b"/pushed")],
            [(b":method", b"GET"), (b":scheme", b"https"), (b":authority", b"localhost"), (b":path", b"/p\xff"),
             (b"x-bin", b"\xc3\x28")]]


def fields_of(obj):
    """Event fields, mechanically: scalars as they are, bytes as length + crc, header lists as count + digest."""
    out = {}
    for k, v in sorted(vars(obj).items()):
        if isinstance(v, (bytes, bytearray)):
            out[k] = crc(v)
        elif isinstance(v, list):
            out[k] = hdig(v)
        elif isinstance(v, Enum):
            out[k] = v.name
        else:
            out[k] = v
    return out


_CERTS = {}


class PairSim(simmod.Sim):
    def __init__(self, A, cfg=None, seed=0, h3=None):
        self.processed = {"c": [0, 0, 0, 0], "s": [0, 0, 0, 0]}
        self.h3 = h3
        self.http = {}
        self.nresp = 0
        self.open_reqs = []              # client request streams still open for sending
        self.rawfin = set()
        self.rawopen = set()
        self.secrets = {"c": io.StringIO(), "s": io.StringIO()}      # what the code under check writes
        cfg = dict(cfg or {})
        cfg.update({"keylog": False, "keycap": True})
        super().__init__(A, cfg, seed)
        if h3 and h3.get("c") == "h3":
            self._mk_http("c")

    # -- trusted signal for the accounting: packets handed to _payload_received, per epoch
    def _count_processed(self, side):
        conn, cnt = self.eps[side], self.processed[side]
        orig = conn._payload_received

        def counted(context, *a, **kw):
            cnt[EPOCHS.index(context.epoch.name)] += 1
            return orig(context, *a, **kw)
        conn._payload_received = counted

    def _base_config(self, is_client):
        c = super()._base_config(is_client)
        if self.cfg.get("secrets"):
            c.secrets_log_file = self.secrets["c" if is_client else "s"]
        if not is_client:
            # parsing the test key costs ~90 ms: every run of a process shares the parsed certificate objects
            # (the same three fields load_cert_chain sets); configuration loading is not under check here
            def cached(certfile, keyfile=None, password=None):
                k = (str(certfile), str(keyfile))
                if k not in _CERTS:
                    type(c).load_cert_chain(c, certfile, keyfile, password)
                    _CERTS[k] = (c.certificate, c.certificate_chain, c.private_key)
                c.certificate, c.certificate_chain, c.private_key = _CERTS[k]
            c.load_cert_chain = cached
        return c

    def _make_client(self):
        super()._make_client()
        self._count_processed("c")

    def _make_server(self, odcid):
        super()._make_server(odcid)
        self._count_processed("s")

    # -- HTTP/3 on top
    def _mk_http(self, ep):
        from aioquic.h3.connection import H3Connection
        http, r = self._guard(ep, "h3.create", H3Connection, self.eps[ep], bool(self.h3.get("wt")))
        self.ev("api", ep=ep, call="h3.create", raised=r or "")
        if http is not None:
            self.http[ep] = http

    def h3call(self, ep, name, *args, after=True, note=None):
        http = self.http.get(ep)
        if http is None or self.terminated[ep]:
            return None
        res, r = self._guard(ep, "h3." + name, getattr(http, name), *args)
        rec = {"ep": ep, "call": "h3." + name, "raised": r or "", "sid": args[0] if args and isinstance(args[0], int) else -1}
        for i, a in enumerate(args[1:]):
            rec["a%d" % i] = crc(a) if isinstance(a, (bytes, bytearray)) else hdig(a) if isinstance(a, list) else a
        if isinstance(res, int):
            rec["res"] = res
        self.ev("api", **rec)
        if after:
            self._after(ep)
        return res

    def rawwrite(self, ep, sid, data, fin):
        """A peer that writes arbitrary bytes on its QUIC streams (plain send_stream_data)."""
        conn = self.eps.get(ep)
        if conn is None or self.terminated[ep] or (ep, sid) in self.rawfin:
            return False
        mine = (sid % 2 == 0) == (ep == "c")
        if sid % 4 >= 2 and not mine:
            return False                 # cannot send on the peer's unidirectional stream
        if not mine and sid not in conn._streams:
            return False                 # a peer-initiated bidirectional stream it has not seen
        if fin:
            self.rawfin.add((ep, sid))
        _, r = self._guard(ep, "write", conn.send_stream_data, sid, data, fin)
        self.ev("api", ep=ep, call="rawwrite", sid=sid, data=crc(data), fin=bool(fin), raised=r or "")
        self._after(ep)
        return True

    def _log_event(self, ep, e, E):
        super()._log_event(ep, e, E)
        if not self.h3:
            return
        if ep == "s" and isinstance(e, E.ProtocolNegotiated) and self.h3.get("s") == "h3" and "s" not in self.http:
            self._mk_http("s")
        http = self.http.get(ep)
        if http is None:
            return
        out, r = self._guard(ep, "h3.handle_event", http.handle_event, e)
        if r:
            self.ev("h3", ep=ep, cls="RAISED", raised=r)
            return
        for h in out:
            self.ev("h3", ep=ep, cls=type(h).__name__, raised="", **fields_of(h))
            self._react(ep, h)

    def _react(self, ep, h):
        """The scripted server application: answer every complete request."""
        n = type(h).__name__
        if ep != "s" or n not in ("HeadersReceived", "DataReceived") or not h.stream_ended or h.stream_id % 4 != 0:
            return
        plans = self.h3.get("resp") or [[0, 10, False, -1]]
        hs, nbody, push, tr = plans[self.nresp % len(plans)]
        self.nresp += 1
        sid = h.stream_id
        if push:
            psid = self.h3call("s", "send_push_promise", sid, PUSH_REQ[(push - 1) % len(PUSH_REQ)], after=False)
            if isinstance(psid, int):
                self.h3call("s", "send_headers", psid, RSP + EXTRA[hs % len(EXTRA)], False, after=False)
                self.h3call("s", "send_data", psid, body(40, 9), True, after=False)
        last = nbody == 0 and tr < 0
        self.h3call("s", "send_headers", sid, RSP + EXTRA[hs % len(EXTRA)], last, after=False)
        if nbody:                        # nbody < 0: an empty DATA frame (the usual way to end a stream late)
            self.h3call("s", "send_data", sid, body(max(nbody, 0), sid), tr < 0, after=False)
        if tr >= 0:
            self.h3call("s", "send_headers", sid, TRAILERS[tr % len(TRAILERS)], True, after=False)


class PairExec(scriptmod.Exec):
    """script.Exec plus the HTTP/3 and raw-peer steps:
      ["h3req", headers idx, body length, "fin"|"open", post?]   client request on a new stream
      ["h3more", k, n, fin]          more DATA on the k-th request still open
      ["h3trailers", k, idx]         trailers (end the k-th open request)
      ["h3dgram", k, n]              HTTP datagram for the k-th request stream seen so far
      ["raw", ep, target, hexdata, fin, typebyte hex]   raw bytes on the stream C16 calls `target` (victim = the other side)
      ["vn", [versions], first-byte bits]   a Version Negotiation packet for the client in its first flight
    """

    def __init__(self, sim):
        super().__init__(sim)
        self.req_sids = []

    def step(self, st):
        s = self.sim
        op = st[0]
        if self.t0 is None:
            self.t0 = s.now
        if op == "h3req":
            _, hs, nbody, mode, post = st
            if "c" not in s.http or s.terminated["c"]:
                return False
            sid = s.eps["c"].get_next_available_stream_id()
            end = mode == "fin"
            s.h3call("c", "send_headers", sid, (POST if post else REQ) + EXTRA[hs % len(EXTRA)], end and nbody == 0)
            self.req_sids.append(sid)
            if nbody:
                s.h3call("c", "send_data", sid, body(nbody, sid), end)
            if not end:
                s.open_reqs.append(sid)
            return True
        if op == "h3more":
            if not s.open_reqs:
                return False
            sid = s.open_reqs[st[1] % len(s.open_reqs)]
            if st[3]:
                s.open_reqs.remove(sid)
            s.h3call("c", "send_data", sid, body(st[2], sid + 1), bool(st[3]))
            return True
        if op == "h3trailers":
            if not s.open_reqs:
                return False
            sid = s.open_reqs.pop(st[1] % len(s.open_reqs))
            s.h3call("c", "send_headers", sid, TRAILERS[st[2] % len(TRAILERS)], True)
            return True
        if op == "h3dgram":
            if not self.req_sids:
                return False
            s.h3call("c", "send_datagram", self.req_sids[st[1] % len(self.req_sids)], body(st[2], 5))
            return True
        if op == "vn":
            # a Version Negotiation packet (RFC 9000 17.2.1; unauthenticated: anybody on the path can send it)
            # reaches the client, echoing the connection ids of its first flight
            conn = s.eps["c"]
            if s.terminated["c"] or conn._state.name != "FIRSTFLIGHT":
                return False
            raw = bytes([0x80 | (st[2] & 0x7F)]) + bytes(4) + bytes([len(conn.host_cid)]) + conn.host_cid + \
                bytes([len(conn._peer_cid.cid)]) + conn._peer_cid.cid + b"".join(int(v).to_bytes(4, "big") for v in st[1])
            s.ev("inject", src="s", ptype="vn", tag="version-negotiation", plen=len(raw))
            s.inject("c", raw, simmod.SADDR, "version-negotiation")
            return True
        if op == "raw":
            _, ep, target, hexdata, fin, tb = st
            victim = "client" if ep == "s" else "server"
            sid = C16.ids(victim)[target]
            data = bytes.fromhex(hexdata)
            if tb and (ep, sid) not in s.rawopen:
                data = bytes.fromhex(tb) + data
            s.rawopen.add((ep, sid))
            if not data and not fin:
                return False
            return s.rawwrite(ep, sid, data, bool(fin))
        return super().step(st)


def run(A, cfg, script, seed=0, hs_adv=False, h3=None):
    """script.run with PairSim / PairExec."""
    s = PairSim(A, cfg, seed=seed, h3=h3)
    try:
        ex = PairExec(s)
        if hs_adv:
            s.connect()
        elif not s.handshake():
            s.ev("note", what="handshake did not complete in the fair prelude")
        for st in script:
            ex.step(st)
        s.quiescent_end = s.run_fair()
        s.run_closing()
        s.final_poll()
        s.ev("end", quiescent=bool(s.quiescent_end))
        s.executor = ex
    finally:
        s.close()
    return s


# ------------------------------------------------------------------ projection of one run
def val(v):
    if isinstance(v, (list, dict)):
        return json.dumps(v, sort_keys=True, separators=(",", ":"))
    return str(v)


def kv(d, skip=()):
    return " ".join("%s=%s" % (k, val(d[k])) for k in sorted(d) if k not in skip)


BASE_SKIP = ("seq", "t", "k", "raised")


def frame_str(f, raw):
    """f: the frame as the simulator logged it (payload bytes already dropped); raw: the observer's frame."""
    d = dict(f)
    if raw["t"] in ("stream", "datagram"):
        d["dig"] = crc(raw["data"])          # application payload is deterministic; CRYPTO is not (key shares)
    return "frame " + kv(d)


def project(s):
    """The raw log of one run -> list of step records [k, raised, obs, mdl] (DESIGN appendix A kinds
    api / ev / tx / pkt / gt / rx / timer / end, plus h3 for HTTP/3 events)."""
    out = []
    for e in s.log:
        k = e["k"]
        raised = e.get("raised", "") or ""
        mdl = ["t=%d" % e["t"]]
        if k in ("api", "rx", "timer", "end"):
            obs = [kv(e, BASE_SKIP)]
        elif k in ("ev", "h3"):
            d = dict(e)
            if isinstance(d.get("data"), list):
                d["data"] = crc(bytes(d["data"]))
            obs = [kv(d, BASE_SKIP)]
        elif k == "tx":
            obs = ["ep=%s ndg=%d dgs=%s" % (e["ep"], len(e["dgs"]), val([[d["len"], d["to"]] for d in e["dgs"]]))]
            mdl += ["st0 " + kv(e["st0"]), "st " + kv(e["st"])]
        elif k == "pkt":
            obs = [kv(e, BASE_SKIP + ("sha", "frames"))]
            if "frames" in e:
                raw = s.emitted[e["dg"]][e["idx"]]["frames"]
                obs += [frame_str(f, r) for f, r in zip(e["frames"], raw)]
        elif k == "gt":
            obs = ["ep=%s value=%d" % (e["ep"], e["value"])]
            mdl.append("idle=%d" % e["idle"])
        else:                               # cfg, net, arr, inject, note: the harness's own actions
            continue
        out.append({"k": k, "raised": raised, "obs": obs, "mdl": mdl})
    return out


NONE = {"k": "none", "raised": "", "obs": [], "mdl": []}


class Table:
    """Lossless dictionary coding of a zipped line: the strings of the four runs go into one table
    (`tab`), the records hold 1-based indices; TraceLogPair decodes through the table before it
    compares, so nothing is decided here."""

    def __init__(self):
        self.tab, self.ix = [], {}

    def put(self, strings):
        out = []
        for x in strings:
            if x not in self.ix:
                self.tab.append(x)
                self.ix[x] = len(self.tab)
            out.append(self.ix[x])
        return out


def decode(line, ixs):
    return [line["tab"][i - 1] for i in ixs]


# ------------------------------------------------------------------ final state
def _is_skipped(name):
    n = name.lower()
    return "log" in n or name in ("_update_traffic_key", "_payload_received", "_configuration", "_quic")


def walk(x, path, out, seen, opaque_bytes=False):
    """Leaves (path, text) of everything reachable from x through instance attributes and
    containers.  Attributes that belong to logging (any name containing "log"), the harness's own
    two wrappers, the static configuration and key material are left out; byte strings under a
    CRYPTO stream are reduced to their length (TLS messages hold key shares and signatures that
    differ from run to run)."""
    if x is None or isinstance(x, (bool, int, str)):
        out.append((path, repr(x)))
    elif isinstance(x, float):
        out.append((path, repr(x)))
    elif isinstance(x, Enum):
        out.append((path, type(x).__name__ + "." + x.name))
    elif isinstance(x, (bytes, bytearray, memoryview)):
        b = bytes(x)
        out.append((path, "bytes:%d" % len(b) if opaque_bytes else "bytes:" + crc(b)))
    elif isinstance(x, dict):
        out.append((path + ".#", str(len(x))))
        for i, (k, v) in enumerate(x.items()):
            kr = k.name if isinstance(k, Enum) else crc(k) if isinstance(k, bytes) else repr(k) if isinstance(k, (int, str, bool, float, type(None))) else type(k).__name__
            walk(v, "%s[%d:%s]" % (path, i, kr), out, seen, opaque_bytes)
    elif isinstance(x, (list, tuple)) or type(x).__name__ == "deque":
        out.append((path + ".#", str(len(x))))
        for i, v in enumerate(x):
            walk(v, "%s[%d]" % (path, i), out, seen, opaque_bytes)
    elif isinstance(x, (set, frozenset)):
        simple = sorted(repr(v) for v in x if isinstance(v, (int, str, bytes, float, bool)))
        out.append((path, "set:%d:%s" % (len(x), ",".join(simple))))
    elif type(x).__name__ == "RangeSet":
        out.append((path, "ranges:" + ",".join("%d-%d" % (r.start, r.stop) for r in x)))
    elif type(x).__name__ == "partial":
        out.append((path, "partial:" + getattr(x.func, "__name__", "?")))
        walk(list(x.args), path + ".args", out, seen, opaque_bytes)
    elif callable(x) and not hasattr(x, "__dict__") or type(x).__name__ in ("function", "method", "builtin_function_or_method"):
        out.append((path, "callable:" + getattr(x, "__qualname__", getattr(x, "__name__", type(x).__name__))))
    elif hasattr(x, "__dict__") or hasattr(type(x), "__slots__"):
        if id(x) in seen:
            out.append((path, "again:" + type(x).__name__))
            return
        seen.add(id(x))
        out.append((path, "obj:" + type(x).__name__))
        names = list(getattr(x, "__dict__", {}).keys())
        for c in type(x).__mro__:
            sl = c.__dict__.get("__slots__", ())
            names += [n for n in ([sl] if isinstance(sl, str) else sl) if n not in names]
        for n in names:
            if _is_skipped(n) or not hasattr(x, n):
                continue
            walk(getattr(x, n), path + "." + n, out, seen, opaque_bytes)
    else:
        out.append((path, "opaque:" + type(x).__name__))


def conn_state(conn):
    """-> (explicit, attrs): explicit = list of "name=value" strings read field by field;
    attrs = {attribute: leaves} of the walk over vars(conn)."""
    def g(o, path):
        for a in path.split("."):
            o = getattr(o, a, "?")
        return o
    ce = g(conn, "_close_event")
    explicit = ["state=%s" % g(conn, "_state.name"),
                "close=%s" % ("-" if ce is None else "%s/%s/%s" % (g(ce, "error_code"), g(ce, "frame_type"), str(g(ce, "reason_phrase"))[:60])),
                "hc=%s hcf=%s" % (g(conn, "_handshake_complete"), g(conn, "_handshake_confirmed")),
                "pn=%s" % g(conn, "_packet_number"),
                "cwnd=%r bif=%r pto_count=%r srtt=%r" % (g(conn, "_loss.congestion_window"), g(conn, "_loss.bytes_in_flight"),
                                                         g(conn, "_loss._pto_count"), g(conn, "_loss._rtt_smoothed")),
                "max_data local=%r/%r remote=%r/%r" % (g(conn, "_local_max_data.value"), g(conn, "_local_max_data.used"),
                                                       g(conn, "_remote_max_data"), g(conn, "_remote_max_data_used")),
                "host_cids=%s peer_cid=%r" % ([g(c, "sequence_number") for c in g(conn, "_host_cids")], g(conn, "_peer_cid.sequence_number"))]
    for ep_, sp in getattr(conn, "_spaces", {}).items():
        explicit.append("space %s expected=%r largest_rx=%r largest_acked=%r unacked=%d discarded=%r" % (
            ep_.name, g(sp, "expected_packet_number"), g(sp, "largest_received_packet"), g(sp, "largest_acked_packet"),
            len(g(sp, "sent_packets")), g(sp, "discarded")))
    for sid, st in sorted(conn._streams.items()):
        explicit.append("stream %d send=[%r,%r) fin=%r reset=%r recv_hi=%r recv_fin=%r max_tx=%r max_rx=%r" % (
            sid, g(st, "sender._buffer_start"), g(st, "sender._buffer_stop"), g(st, "sender._buffer_fin"), g(st, "sender.reset_pending"),
            g(st, "receiver.highest_offset"), g(st, "receiver.is_finished"), g(st, "max_stream_data_remote"), g(st, "max_stream_data_local")))
    attrs = {}
    seen = {id(conn)}
    for name, v in vars(conn).items():
        if _is_skipped(name):
            continue
        leaves = []
        if name == "tls":
            t = v
            leaves = [("tls.state", t.state.name), ("tls.alpn", repr(t.alpn_negotiated)),
                      ("tls.early", repr(t.early_data_accepted)), ("tls.resumed", repr(t.session_resumed))]
        elif name in ("_cryptos", "_cryptos_initial"):
            for k, pair in v.items():
                kn = k.name if isinstance(k, Enum) else repr(k)
                leaves.append(("%s[%s]" % (name, kn), "send=%r recv=%r phase=%r tag=%r" % (
                    pair.send.is_valid(), pair.recv.is_valid(), pair.key_phase, pair.aead_tag_size)))
        else:
            walk(v, name, leaves, seen, opaque_bytes=name.startswith("_crypto"))
        attrs[name] = leaves
    return explicit, attrs


def http_state(http):
    attrs = {}
    seen = {id(http)}
    for name, v in vars(http).items():
        if _is_skipped(name):
            continue
        leaves = []
        walk(v, name, leaves, seen)
        attrs["h3." + name] = leaves
    return attrs


def final_state(s):
    """-> (strings for the trace line, full leaves for naming a difference)."""
    lines, full = [], []
    for ep in "cs":
        conn = s.eps.get(ep)
        if conn is None:
            lines.append("%s: absent" % ep)
            continue
        lines.append("%s: terminated=%r" % (ep, s.terminated[ep]))
        explicit, attrs = conn_state(conn)
        if ep in s.http:
            attrs.update(http_state(s.http[ep]))
        for x in explicit:
            lines.append("%s: %s" % (ep, x))
            full.append(("%s:%s" % (ep, x.split("=")[0]), x))
        for name, leaves in attrs.items():
            h = hashlib.sha1(repr(leaves).encode()).hexdigest()[:12]
            lines.append("%s: attr %s #%d %s" % (ep, name, len(leaves), h))
            full += [("%s:%s" % (ep, p), v) for p, v in leaves]
    return lines, full


# ------------------------------------------------------------------ accounting
def accounts(s, mode):
    """One account per endpoint of a run with qlog on: the qlog document on one side, the
    observer's packets and the harness's count of processed packets on the other."""
    out = []
    for ep in "cs":
        lg = s.qlog.get(ep)
        if lg is None or ep not in s.eps:
            continue
        q = {"who": "%s:%s" % (mode, ep), "jsonOk": True, "strictJson": True, "raised": ""}
        doc, r = s._guard(ep, "to_dict", lg.to_dict)
        if r:
            q.update(jsonOk=False, strictJson=False, raised=r)
            doc = {"traces": []}
        else:
            try:
                txt = json.dumps(doc)
            except Exception as exc:      # noqa: recorded, judged by TLC
                q.update(jsonOk=False, strictJson=False, raised=type(exc).__name__ + "@json.dumps")
                txt = None
            if txt is not None:
                try:
                    strict = json.loads(json.dumps(doc, allow_nan=False)) == json.loads(txt)
                except Exception:         # noqa
                    strict = False
                q["strictJson"] = strict
        events = [e for t in doc.get("traces", []) for e in t.get("events", []) if isinstance(e, dict) and "name" in e]
        sent = [e for e in events if e["name"] == "transport:packet_sent"]
        recv = [e for e in events if e["name"] == "transport:packet_received"]
        q["ntraces"] = len(doc.get("traces", []))
        hdr = lambda e: (e.get("data") or {}).get("header") or {}        # noqa: E731
        q["sentRecords"] = ["%s:%s" % (str(hdr(e).get("packet_type")).lower(), hdr(e).get("packet_number")) for e in sent]
        q["sentRecordLens"] = [str(((e.get("data") or {}).get("raw") or {}).get("length")) for e in sent]
        rt = [str(hdr(e).get("packet_type")).lower() for e in recv]
        q["recvRecords"] = [rt.count(t) for t in QLOG_TYPES]
        q["otherRecvRecords"] = len([t for t in rt if t not in QLOG_TYPES])      # retry / version negotiation
        q["processed"] = [s.processed[ep][EPOCHS.index(n)] for n in ("INITIAL", "HANDSHAKE", "ZERO_RTT", "ONE_RTT")]
        pk = [e for e in s.log if e["k"] == "pkt" and e["ep"] == ep and e["type"] != "dgram_padding"]
        q["countable"] = all(e["ok"] and e["type"] in QLOG_TYPES for e in pk)
        q["sent"] = ["%s:%s" % (e["type"], e.get("pn")) for e in pk]
        q["sentLens"] = [str(e["len"]) for e in pk]
        q["h3records"] = len([e for e in events if e["name"].startswith("http:")])
        out.append(q)
    return out


def secrets_accounts(s, mode):
    """The secrets log the code under check wrote, next to the secrets the harness captured at
    `_update_traffic_key` (label and secret of every line; the client random is not compared)."""
    out = []
    for ep in "cs":
        if ep not in s.eps:
            continue
        pick = lambda txt: ["%s %s" % (p[0], p[2]) for p in (ln.split() for ln in txt.splitlines()) if len(p) == 3]     # noqa: E731
        out.append({"who": "%s:%s" % (mode, ep), "written": pick(s.secrets[ep].getvalue()), "installed": pick(s.keylog[ep].getvalue())})
    return out


# ------------------------------------------------------------------ one scenario, four ways
def first_diff(a, b):
    """Name of the first field in which two projected (decoded) records differ (for the signature only)."""
    if a["k"] != b["k"]:
        return "kind:%s/%s" % (a["k"], b["k"])
    if a["raised"] != b["raised"]:
        return "raised"
    for i, (x, y) in enumerate(zip(a["obs"], b["obs"])):
        if x != y:
            xs, ys = x.split(" "), y.split(" ")
            head = xs[0] if i and xs[0] == "frame" else ""
            for p, q in zip(xs, ys):
                if p != q:
                    return (head + ":" if head else "") + ("%s" % p.split("=")[0])
            return (head + ":" if head else "") + "fields"
    if len(a["obs"]) != len(b["obs"]):
        return "frame-count"
    return "?"


def run_scenario(A, job):
    """-> dict(lines, meta).  lines: init, zipped steps, end."""
    runs, finals, fulls, accts, kls = [], [], [], [], []
    meta = {"n": [], "h3records": 0, "raised_off": [], "unopened": 0}
    resume = {}
    if job.get("resume"):
        # a first connection (logging off) hands out the session ticket all four runs resume from
        store = {}
        s1 = PairSim(A, dict(job["cfg"], ticket_store=store, qlog=False, secrets=False), seed=job["seed"] ^ 0x5A5A)
        try:
            s1.connect()
            s1.run_fair()
        finally:
            s1.close()
        if s1.tickets:
            resume = {"session_ticket": s1.tickets[-1], "store": store}
    meta["resumed_from_ticket"] = bool(resume)
    for mode, mcfg in MODES:
        cfg = dict(job["cfg"])
        cfg.update(mcfg)
        if resume:
            cfg.update(session_ticket=resume["session_ticket"], ticket_store=dict(resume["store"]))
        s = run(A, cfg, job["script"], seed=job["seed"], hs_adv=job.get("hs_adv", False), h3=job.get("h3"))
        runs.append(project(s))
        fl, full = final_state(s)
        finals.append(fl)
        fulls.append(full)
        acc = accounts(s, mode) if cfg["qlog"] else []
        accts += acc
        if cfg["secrets"]:
            kls += secrets_accounts(s, mode)
        meta["n"].append(len(runs[-1]))
        meta["h3records"] += sum(a["h3records"] for a in acc)
        if mode == "off":
            meta["raised_off"] = sorted({r[2] for r in s.raised})[:4]
            meta["unopened"] = sum(1 for e in s.log if e["k"] == "pkt" and not e["ok"])
            meta["kinds"] = sorted({e["cls"] for e in s.log if e["k"] in ("ev", "h3")})
            meta["ftypes"] = sorted({f["t"] for e in s.log if e["k"] == "pkt" for f in e.get("frames", [])})
            meta["npkt"] = sum(1 for e in s.log if e["k"] == "pkt")
            meta["zero_rtt"] = sum(1 for e in s.log if e["k"] == "pkt" and e["type"] == "0rtt" and e["ok"])
            meta["injected"] = sorted({e["tag"] for e in s.log if e["k"] == "inject"})
            meta["terminated"] = sorted((e["ep"], e["code"]) for e in s.log if e["k"] == "ev" and e["cls"] == "ConnectionTerminated")
    lines = [{"ev": "init"}]
    for j in range(max(len(r) for r in runs)):
        recs = [r[j] if j < len(r) else NONE for r in runs]
        t = Table()
        lines.append({"ev": "step", "k": recs[0]["k"],
                      "r": [{"k": r["k"], "raised": r["raised"], "obs": t.put(r["obs"]), "mdl": t.put(r["mdl"])} for r in recs],
                      "tab": t.tab})
    t = Table()
    lines.append({"ev": "end", "f": [t.put(f) for f in finals], "q": accts, "kl": kls, "tab": t.tab})
    # for naming a difference of the final state (the verdict is TLC's, on the line above)
    hints = []
    for m in range(1, 4):
        d = dict(fulls[0])
        h = ""
        for p, v in fulls[m]:
            if d.get(p, None) != v:
                h = p
                break
        if not h and len(fulls[m]) != len(fulls[0]):
            h = "leaf-count"
        hints.append(h)
    meta["final_hints"] = hints
    return {"lines": lines, "meta": meta}
