"""Validate recorded NDJSON lines with a Trace*.tla module, sharded over TLC processes."""
import json
import os
from concurrent.futures import ThreadPoolExecutor

from . import tlc
from .overlay import MachineryError


def validate(check, module, lines, constants="", shards=None, name=None, spec="TSpec",
             group_key=None, timeout=3600, heap="3g"):
    """lines: list of JSON-able dicts.  Returns list of (index, clause).
    group_key(line) -> lines with the same consecutive key stay in one shard
    (used for multi-line traces that start with an "init" line)."""
    name = name or module
    n = len(lines)
    if n == 0:
        raise MachineryError("no trace lines to validate for " + module)
    if shards is None:
        shards = max(1, min(16, n // 1500))
    # cut into shards at group boundaries
    bounds = [0]
    target = n / shards
    for i in range(1, n):
        if len(bounds) >= shards:
            break
        if i >= target * len(bounds) and (group_key is None or group_key(lines[i])):
            bounds.append(i)
    bounds.append(n)
    wd = os.path.join(check.work, "trace-" + name)
    os.makedirs(wd, exist_ok=True)
    cfg = "SPECIFICATION %s\n%s\n" % (spec, constants)

    def one(k):
        lo, hi = bounds[k], bounds[k + 1]
        path = os.path.join(wd, "%s.%d.ndjson" % (name, k))
        with open(path, "w") as f:
            for ln in lines[lo:hi]:
                f.write(json.dumps(ln, separators=(",", ":")))
                f.write("\n")
        r = tlc.run(module, cfg, os.path.join(wd, "s%d" % k), name="%s_%d" % (name, k), workers=1,
                    env={"TRACE_FILE": path}, timeout=timeout, heap=heap)
        fails, end = [], None
        for p in r.prints:
            t = tlc.parse_tuple_line(p)
            if t and t[0] == "TRACE-FAIL":
                fails.append((lo + t[1] - 1, t[2]))
            elif t and t[0] == "TRACE-END":
                end = t[1]
        if r.out.count('"TRACE-FAIL"') != len([p for p in r.prints if '"TRACE-FAIL"' in p]):
            raise MachineryError("trace validation of %s shard %d: TRACE-FAIL lines in TLC's output were not all parsed" % (name, k))
        if r.violated or end != hi - lo:
            raise MachineryError("trace validation of %s shard %d did not consume all %d lines (end=%s, violated=%s)\n%s"
                                 % (name, k, hi - lo, end, r.violated, r.out[-2500:]))
        os.unlink(path)
        return r, sorted(set(fails))

    fails = []
    with ThreadPoolExecutor(max_workers=16) as ex:
        for r, f in ex.map(one, range(len(bounds) - 1)):
            check.cov["states"] += r.distinct
            check.cov["transitions"] += r.generated
            fails += f
    check.cov["tlc_runs"].append({"module": module, "name": name, "lines": n,
                                  "shards": len(bounds) - 1, "failures": len(fails)})
    return fails
