"""C19 machinery: a virtual-time asyncio event loop whose next item is chosen by
a schedule, an in-memory datagram network with fates, and a scenario runner
that drives the REAL aioquic.asyncio QuicServer / QuicConnectionProtocol /
QuicConnection objects and records what they do as NDJSON-able lines.

Nothing here decides anything: the recorded lines are judged by TLC
(spec/TraceAsyncio.tla).  Python drives, projects fields and concretises bytes.
"""
import asyncio
import heapq
import os
import random
import sys

CERT = "/repo/tests/ssl_cert.pem"
KEY = "/repo/tests/ssl_key.pem"
CA = "/repo/tests/pycacert.pem"
SERVER_ADDR = ("::ffff:127.0.0.1", 4433, 0, 0)
BLOCK = 32                     # Byte(salt, o) = (o div BLOCK + salt) mod 256  (TraceAsyncio!Byte)
STEP_BUDGET = 300000
HORIZON = 400.0                # virtual seconds; idle timeouts are <= 60 s, sleeps <= 3 s


class HarnessError(Exception):
    """The harness itself misbehaved (becomes MachineryError in the driver)."""


def salt_of(cl, sid, down):
    return (53 * cl + 7 * sid + (101 if down else 0)) % 256


def pattern(salt, off, n):
    return bytes(((o // BLOCK) + salt) % 256 for o in range(off, off + n))


def runs_of(data):
    """Lossless run-length encoding [[value, count], ...] of a byte string."""
    out = []
    for b in data:
        if out and out[-1][0] == b:
            out[-1][1] += 1
        else:
            out.append([b, 1])
    return out


# --------------------------------------------------------------------- the loop
class VFuture(asyncio.Future):
    """A loop future that reports every completion attempt (the n-th)."""

    def _c19_note(self):
        loop = self._loop
        self._c19_n = getattr(self, "_c19_n", 0) + 1
        loop.rec.futset(self)

    def set_result(self, result):
        self._c19_note()
        return super().set_result(result)

    def set_exception(self, exception):
        self._c19_note()
        return super().set_exception(exception)


class VLoop(asyncio.AbstractEventLoop):
    """Virtual time, a ready list and a timer heap; which item runs next is
    decided by the scheduler (Runner.step), not by FIFO order."""

    def __init__(self, rec):
        self.rec = rec
        self.now = 0.0
        self.ready = []
        self.timers = []
        self.nfut = 0
        self.exceptions = []

    def time(self):
        return self.now

    def call_soon(self, callback, *args, context=None):
        h = asyncio.Handle(callback, args, self, context)
        self.ready.append(h)
        return h

    def call_at(self, when, callback, *args, context=None):
        h = asyncio.TimerHandle(when, callback, args, self, context)
        heapq.heappush(self.timers, h)
        h._scheduled = True
        return h

    def call_later(self, delay, callback, *args, context=None):
        return self.call_at(self.now + max(0.0, delay), callback, *args, context=context)

    def create_future(self):
        f = VFuture(loop=self)
        self.nfut += 1
        f._c19_id = self.nfut
        f._c19_creator = sys._getframe(1).f_code.co_name
        return f

    def create_task(self, coro, *, name=None, context=None):
        return asyncio.Task(coro, loop=self, name=name)

    def get_debug(self):
        return False

    def is_running(self):
        return True

    def is_closed(self):
        return False

    def call_exception_handler(self, context):
        # only what a callback of this run raised (Handle._run, or the transport calling
        # datagram_received); messages from garbage collection of other runs' objects are not events
        if context.get("exception") is not None and ("handle" in context or context.get("message") == "datagram_received"):
            self.exceptions.append(context)
            self.rec.loop_exception(context)

    def _timer_handle_cancelled(self, handle):
        pass


# ------------------------------------------------------------------ the network
class VTransport(asyncio.DatagramTransport):
    def __init__(self, net, addr):
        super().__init__()
        self.net = net
        self.addr = addr
        self.closed = False

    def sendto(self, data, addr=None):
        if not self.closed:
            self.net.send(self.addr, addr, bytes(data))

    def close(self):
        self.closed = True

    def is_closing(self):
        return self.closed


class Dgram:
    __slots__ = ("src", "dst", "data", "born", "copies")

    def __init__(self, src, dst, data, born):
        self.src, self.dst, self.data, self.born, self.copies = src, dst, data, born, 0


class Net:
    def __init__(self, runner):
        self.r = runner
        self.q = []
        self.endpoints = {}            # address -> (protocol-like with datagram_received, transport)
        self.alias = {}                # rebinding: alias address -> real address
        self.sent = 0

    def send(self, src, dst, data):
        self.sent += 1
        self.r.observe_sent(src, dst, data)
        self.q.append(Dgram(src, dst, data, self.r.loop.now))

    def deliver(self, d):
        dst = self.alias.get(d.dst, d.dst)
        ep = self.endpoints.get(dst)
        if ep is None or ep[1].closed:
            return
        self.r.before_deliver(d)
        try:
            ep[0].datagram_received(d.data, d.src)
        except Exception as e:      # what a selector transport does: report to the loop's handler
            self.r.loop.call_exception_handler({"message": "datagram_received", "exception": e})
        self.r.after_deliver(d)


# ----------------------------------------------------------------- the recorder
class Rec:
    def __init__(self):
        self.lines = []
        self.cids = {}
        self.addrs = {}
        self.toks = {b"": 0}

    def emit(self, **kw):
        self.lines.append(kw)

    def cid(self, b):
        return self.cids.setdefault(bytes(b), len(self.cids) + 1)

    def addr(self, a):
        return self.addrs.setdefault((a[0], a[1]), len(self.addrs) + 1)

    def tok(self, b):
        return self.toks.setdefault(bytes(b), len(self.toks))

    WAITER_FUTURES = ("ping", "wait_connected", "wait", "shield")   # created by protocol.py's waiters / Event.wait

    def futset(self, f):
        if f._c19_creator in self.WAITER_FUTURES:
            self.emit(op="futset", f=f._c19_id, n=f._c19_n, creator=f._c19_creator)

    def loop_exception(self, ctx):
        e = ctx.get("exception")
        where = ""
        tb = e.__traceback__ if e is not None else None
        while tb is not None:
            if "aioquic" in tb.tb_frame.f_code.co_filename:
                where = tb.tb_frame.f_code.co_name
            tb = tb.tb_next
        self.emit(op="exc", type=type(e).__name__ if e is not None else "none", where=where)


# ------------------------------------------------------------------- the runner
class Runner:
    """One scenario: builds the real objects, runs the loop under the scenario's
    schedule until nothing can happen any more, returns the recorded lines."""

    def __init__(self, A, sc):
        self.A = A                      # aioquic modules (from the overlay)
        self.sc = sc
        self.rec = Rec()
        self.loop = VLoop(self.rec)
        self.net = Net(self)
        self.rnd = random.Random(sc["sched"]["seed"])
        self.protos = []                # every QuicConnectionProtocol created, index+1 = p
        self.nw = 0
        self.server = None
        self.dirty = True
        self.last_route = None
        self.drops = self.dups = self.rebinds = 0
        self.choice_points = self.nonfifo = 0
        self.steps = 0
        self.creating = None
        self.tasks = []
        self.rebound = set()
        self.retry_addr, self.replayed, self.captured, self.spoofed = {}, set(), {}, 0
        self.replayed_late = set()
        self.spoof_owner = {}
        self.arnd = random.Random(sc["sched"]["seed"] * 7 + 3)     # the attacker's own choices
        self.keep = []                  # writers stay referenced: StreamWriter.__del__ would close (send FIN) at a GC-chosen moment
        self.spin = 0

    # -- observation hooks ------------------------------------------------------
    def new_proto(self, proto, side, cl):
        self.protos.append(proto)
        proto._c19_p = len(self.protos)
        proto._c19_cl = cl
        proto._c19_side = side
        proto._c19_term = False
        proto._c19_hs = False
        self.rec.emit(op="proto", p=proto._c19_p, side=side, cl=cl)
        return proto._c19_p

    def observe_sent(self, src, dst, data):
        if src == SERVER_ADDR and data and (data[0] & 0x80):
            try:
                h = self.A["packet"].pull_quic_header(self.A["buffer"].Buffer(data=data), host_cid_length=8)
            except ValueError:
                return
            if h.packet_type == self.A["packet"].QuicPacketType.RETRY:
                self.rec.emit(op="retry-sent", addr=self.rec.addr(dst), tok=self.rec.tok(h.token))
                self.retry_addr[bytes(h.token)] = dst
        elif (self.sc["net"].get("attack") and dst == SERVER_ADDR and src in self.client_addr and data
              and (data[0] & 0xB0) == 0x80 and len(data) >= 1200):
            # the attacker sits on the path: it has seen the Retry and now sees the client's second
            # Initial carrying the token; it replays that datagram from addresses the token was NOT issued to
            try:
                h = self.A["packet"].pull_quic_header(self.A["buffer"].Buffer(data=data), host_cid_length=8)
            except ValueError:
                return
            tok = bytes(h.token)
            if h.packet_type == self.A["packet"].QuicPacketType.INITIAL and tok in self.retry_addr \
                    and tok not in self.replayed:
                self.replayed.add(tok)
                cl = self.client_addr.index(src) + 1
                self.captured[cl] = (data, self.retry_addr[tok])
                self.inject_replays(cl, genuine=False)

    def foreign_addresses(self, base):
        """Addresses a token issued to `base` must not be accepted from."""
        ip, port = base[0], base[1]
        other = "::ffff:127.0.0.2" if ip != "::ffff:127.0.0.2" else "::ffff:127.0.0.3"
        ports = [(port + 256) % 65536, (port + 512) % 65536, (port - 256) % 65536, port ^ 0x0100]
        out = [(ip, q, 0, 0) for q in dict.fromkeys(ports) if q != port]
        out += [(other, port, 0, 0), (other, (port + 1) % 65536, 0, 0)]
        return out

    def inject_replays(self, cl, genuine):
        data, base = self.captured[cl]
        srcs = self.foreign_addresses(base) + ([base] if genuine else [])
        for a in srcs:
            if a != base:
                self.spoof_owner[a] = cl
            self.spoofed += 1
            d = Dgram(a, SERVER_ADDR, data, self.loop.now)
            d.copies = 2            # the network does not duplicate the attacker's datagrams further
            self.net.q.insert(self.arnd.randrange(len(self.net.q) + 1), d)

    def before_deliver(self, d):
        self.creating = None
        if self.net.alias.get(d.dst, d.dst) == SERVER_ADDR:
            tok, dcid = b"", b""
            if d.data and (d.data[0] & 0x80):
                try:
                    h = self.A["packet"].pull_quic_header(self.A["buffer"].Buffer(data=d.data), host_cid_length=8)
                    dcid = h.destination_cid
                    if h.packet_type == self.A["packet"].QuicPacketType.INITIAL:
                        tok = h.token
                except ValueError:
                    pass
            self.creating = {"addr": self.rec.addr(d.src), "tok": self.rec.tok(tok), "src": d.src, "dcid": dcid}

    def after_deliver(self, d):
        self.creating = None

    def client_of(self, addr):
        if addr in self.spoof_owner:          # a replayed datagram: it is that client's traffic
            return self.spoof_owner[addr]
        a = self.net.alias.get(addr, addr)
        return self.client_addr.index(a) + 1 if a in self.client_addr else 0

    # -- building -----------------------------------------------------------------
    def make_protocol_class(self):
        runner = self
        Base = self.A["protocol"].QuicConnectionProtocol
        ev = self.A["events"]

        class RecProtocol(Base):
            def __init__(self, quic, stream_handler=None):
                super().__init__(quic, stream_handler=stream_handler)
                if quic.configuration.is_client:
                    return
                # created by QuicServer.datagram_received for the datagram being delivered
                c = runner.creating
                if c is None:
                    raise HarnessError("server protocol created outside a delivery")
                cl = runner.client_of(c["src"])
                p = runner.new_proto(self, "s", cl)
                runner.rec.emit(op="conn-created", p=p, addr=c["addr"], tok=c["tok"],
                                hostcid=runner.rec.cid(quic.host_cid), dcid=runner.rec.cid(c["dcid"]))
                runner.dirty = True
                runner.spawn(runner.server_conn_main(self))

            def quic_event_received(self, event):
                r = runner.rec
                p = self._c19_p
                if isinstance(event, ev.ConnectionIdIssued):
                    r.emit(op="cid-issued", p=p, cid=r.cid(event.connection_id))
                    runner.dirty = True
                elif isinstance(event, ev.ConnectionIdRetired):
                    r.emit(op="cid-retired", p=p, cid=r.cid(event.connection_id))
                    runner.dirty = True
                elif isinstance(event, ev.ConnectionTerminated):
                    self._c19_term = True
                    r.emit(op="term", p=p, code=int(event.error_code) % 100000)
                    runner.dirty = True
                    if self._c19_side == "s" and self._c19_cl in runner.captured and self._c19_cl not in runner.replayed_late:
                        # ... and again once the genuine connection is gone (its routing entries are removed):
                        # from the foreign addresses and from the address the token belongs to
                        runner.replayed_late.add(self._c19_cl)
                        runner.inject_replays(self._c19_cl, genuine=True)
                elif isinstance(event, ev.HandshakeCompleted):
                    self._c19_hs = True
                    r.emit(op="hsdone", p=p)
                super().quic_event_received(event)

        return RecProtocol

    def spawn(self, coro):
        t = self.loop.create_task(coro)
        self.tasks.append(t)
        return t

    def setup(self):
        A, sc = self.A, self.sc
        asyncio.events._set_running_loop(self.loop)
        Conf = A["configuration"].QuicConfiguration
        self.Proto = self.make_protocol_class()
        scfg = Conf(is_client=False, alpn_protocols=["c19"], idle_timeout=sc["server"]["idle"])
        scfg.load_cert_chain(CERT, KEY)
        self.rec.emit(op="init", run=sc["id"], retry=bool(sc["retry"]), nclients=len(sc["clients"]),
                      expect=bool(sc["expect_complete"]))
        self.server = A["server"].QuicServer(configuration=scfg, create_protocol=self.Proto,
                                             retry=sc["retry"], stream_handler=self.server_stream_handler)
        st = VTransport(self.net, SERVER_ADDR)
        self.server.connection_made(st)
        self.net.endpoints[SERVER_ADDR] = (self.server, st)
        self.client_addr = [("::ffff:127.0.0.1", 50001 + i, 0, 0) for i in range(len(sc["clients"]))]
        for i, a in enumerate(self.client_addr):
            self.rec.addr(a)
            self.net.alias[("::ffff:127.0.0.1", 51001 + i, 0, 0)] = a
        for i, c in enumerate(sc["clients"]):
            self.spawn(self.client_main(i + 1, c))

    # -- waiters ----------------------------------------------------------------
    async def waiter(self, kind, proto, fn):
        self.nw += 1
        w = self.nw
        self.rec.emit(op="wcreate", w=w, kind=kind, p=proto._c19_p)
        try:
            await fn()
            res = "ok"
        except ConnectionError:
            res = "ConnectionError"
        except Exception as e:           # judged by TLC (not a permitted result class)
            res = type(e).__name__
        self.rec.emit(op="wdone", w=w, res=res)

    async def wait_connected_once(self, proto):
        try:
            await self.waiter("connected", proto, proto.wait_connected)
        finally:
            proto._c19_wc = False

    # -- application coroutines -----------------------------------------------------
    async def run_ops(self, proto, ops, cl, srnd):
        """Application steps of one endpoint; every call is one the public API offers."""
        pending = []
        for op in ops:
            k = op[0]
            if k == "stream":
                _, n, chunk, inline = op
                if proto._c19_side == "s" and not proto._c19_hs:
                    continue      # a server connection opens streams only towards a peer that completed the handshake with it
                t = self.stream_roundtrip(proto, cl, n, chunk, srnd)
                if inline:
                    await t
                else:
                    pending.append(self.spawn(t))
            elif k == "ping":
                _, n, inline = op
                ts = [self.spawn(self.waiter("ping", proto, proto.ping)) for _ in range(n)]
                if inline:
                    await asyncio.gather(*ts)
                else:
                    pending += ts
            elif k == "pings":
                # staggered pings: lifetimes overlap, earlier ones may finish while later ones are outstanding
                for _ in range(op[1]):
                    pending.append(self.spawn(self.waiter("ping", proto, proto.ping)))
                    await asyncio.sleep(op[2])
            elif k == "cid":
                proto.change_connection_id()
            elif k == "sleep":
                await asyncio.sleep(op[1])
            elif k == "yield":
                await asyncio.sleep(0)
            elif k == "wait_connected":
                # API contract: a single wait_connected() at a time
                if not getattr(proto, "_c19_wc", False):
                    proto._c19_wc = True
                    pending.append(self.spawn(self.wait_connected_once(proto)))
            elif k == "wait_closed":
                pending.append(self.spawn(self.waiter("closed", proto, proto.wait_closed)))
            elif k == "gather":
                await asyncio.gather(*pending)
                pending = []
            elif k == "close":
                proto.close(error_code=op[1], reason_phrase="c19")
            else:
                raise HarnessError("unknown op %r" % (op,))
        return pending

    async def stream_roundtrip(self, proto, cl, n, chunk, srnd):
        reader, writer = await proto.create_stream()
        self.keep.append(writer)
        sid = writer.get_extra_info("stream_id")
        down = proto._c19_side == "s"
        await self.write_all(writer, cl, sid, down, n, chunk, srnd)
        await self.read_all(proto, reader, cl, sid, not down, srnd)

    async def write_all(self, writer, cl, sid, down, n, chunk, srnd):
        salt = salt_of(cl, sid, down)
        off = 0
        while off < n:
            m = min(chunk, n - off)
            self.rec.emit(op="write", cl=cl, sid=sid, down=down, len=m)
            writer.write(pattern(salt, off, m))
            off += m
            if srnd.random() < 0.5:
                await asyncio.sleep(0)
        self.rec.emit(op="weof", cl=cl, sid=sid, down=down)
        writer.write_eof()

    async def read_all(self, proto, reader, cl, sid, down, srnd):
        while True:
            data = await reader.read(srnd.choice([1, 7, 64, 1000, 100000]))
            if not data:
                self.rec.emit(op="reof", p=proto._c19_p, cl=cl, sid=sid, down=down)
                return
            for i in range(0, len(data), 2048):
                part = data[i:i + 2048]
                self.rec.emit(op="read", p=proto._c19_p, cl=cl, sid=sid, down=down, len=len(part),
                              runs=runs_of(part))

    def server_stream_handler(self, reader, writer):
        self.spawn(self.server_stream(reader, writer))

    async def server_stream(self, reader, writer):
        self.keep.append(writer)
        adapter = writer.transport
        proto = adapter.protocol
        sid = adapter.stream_id
        cl = proto._c19_cl
        srnd = random.Random(self.sc["sched"]["seed"] * 1000 + sid)
        echo = self.sc["server"]["echo"]
        n = 0
        salt = salt_of(cl, sid, True)
        while True:
            data = await reader.read(srnd.choice([1, 7, 64, 1000, 100000]))
            if not data:
                self.rec.emit(op="reof", p=proto._c19_p, cl=cl, sid=sid, down=False)
                break
            for i in range(0, len(data), 2048):
                part = data[i:i + 2048]
                self.rec.emit(op="read", p=proto._c19_p, cl=cl, sid=sid, down=False, len=len(part),
                              runs=runs_of(part))
            if echo == "incremental" and sid % 4 == 0:
                self.rec.emit(op="write", cl=cl, sid=sid, down=True, len=len(data))
                writer.write(pattern(salt, n, len(data)))
            n += len(data)
        if sid % 4 != 0 or echo == "none":
            return
        if echo == "after" and n:
            self.rec.emit(op="write", cl=cl, sid=sid, down=True, len=n)
            writer.write(pattern(salt, 0, n))
        self.rec.emit(op="weof", cl=cl, sid=sid, down=True)
        writer.write_eof()

    async def client_main(self, cl, c):
        A = self.A
        srnd = random.Random(self.sc["sched"]["seed"] * 100 + cl)
        cfg = A["configuration"].QuicConfiguration(
            is_client=True, alpn_protocols=["c19" if c["alpn"] else "other"], idle_timeout=c["idle"])
        if c["ca"]:
            cfg.load_verify_locations(CA)
        cfg.server_name = "localhost"
        if c["token"]:
            cfg.token = bytes((i * 37 + 11) % 256 for i in range(c["token"]))
        # what aioquic.asyncio.client.connect does, minus getaddrinfo and the socket
        connection = A["connection"].QuicConnection(configuration=cfg)
        proto = self.Proto(connection, stream_handler=self.client_stream_handler)
        self.new_proto(proto, "c", cl)
        addr = self.client_addr[cl - 1]
        tr = VTransport(self.net, addr)
        proto.connection_made(tr)
        self.net.endpoints[addr] = (proto, tr)
        pending = []
        try:
            proto.connect(SERVER_ADDR, transmit=c["wait_connected"])
            if c["wait_connected"]:
                proto._c19_wc = True
                await self.wait_connected_once(proto)
            else:
                proto.transmit()
            pending = await self.run_ops(proto, c["ops"], cl, srnd)
        finally:
            if c["end"] == "close":
                proto.close()
            elif c["end"] == "close_err":
                proto.close(error_code=0x1C19, reason_phrase="c19 error")
            await self.waiter("closed", proto, proto.wait_closed)
        await self.run_ops(proto, c["late"], cl, srnd)
        await asyncio.gather(*pending)

    def client_stream_handler(self, reader, writer):
        # streams opened by the server: read them to EOF
        self.keep.append(writer)
        adapter = writer.transport
        proto = adapter.protocol
        srnd = random.Random(self.sc["sched"]["seed"] * 1000 + adapter.stream_id)
        self.spawn(self.read_all(proto, reader, proto._c19_cl, adapter.stream_id, True, srnd))

    async def server_conn_main(self, proto):
        s = self.sc["server"]
        srnd = random.Random(self.sc["sched"]["seed"] * 100 + 50 + proto._c19_p)
        pending = await self.run_ops(proto, s["ops"], proto._c19_cl, srnd)
        await self.waiter("closed", proto, proto.wait_closed)
        await self.run_ops(proto, s["late"], proto._c19_cl, srnd)
        await asyncio.gather(*pending)

    # -- snapshots ---------------------------------------------------------------
    def snapshot(self):
        route = sorted([self.rec.cid(c), p._c19_p] for c, p in self.server._protocols.items())
        if self.dirty or route != self.last_route:
            self.rec.emit(op="route", route=route)
            self.last_route = route
            self.dirty = False

    # -- scheduling ----------------------------------------------------------------
    def step(self):
        """One scheduling decision.  Returns False when nothing can happen any more."""
        loop, net, rnd, sch, nf = self.loop, self.net, self.rnd, self.sc["sched"], self.sc["net"]
        loop.ready = [h for h in loop.ready if not h._cancelled]
        while loop.timers and loop.timers[0]._cancelled:
            heapq.heappop(loop.timers)
        due = [h for h in loop.timers if not h._cancelled and h._when <= loop.now]
        nready, ndue, nnet = len(loop.ready), len(due), len(net.q)
        total = nready + ndue + nnet
        if total == 0:
            if not loop.timers:
                return False
            loop.now = max(loop.now, loop.timers[0]._when)
            return True
        # let virtual time pass while things are pending (bounded by the age of the oldest datagram)
        if loop.timers and rnd.random() < sch["tick"]:
            limit = min([d.born + nf["max_delay"] for d in net.q] + [loop.now + 0.05])
            t = min(limit, loop.timers[0]._when)
            if t > loop.now:
                loop.now = t
                return True
        overdue = [i for i, d in enumerate(net.q) if loop.now >= d.born + nf["max_delay"]]
        if total > 1:
            self.choice_points += 1
        if overdue and rnd.random() < 0.7:
            k = nready + ndue + overdue[0]
        elif nready and rnd.random() < sch["fifo"]:
            k = 0
        else:
            k = rnd.randrange(total)
        if k != 0 and nready > 1 and k < nready:
            self.nonfifo += 1
        if k < nready:
            h = loop.ready.pop(k)
            h._run()
        elif k < nready + ndue:
            h = due[k - nready]
            loop.timers.remove(h)
            heapq.heapify(loop.timers)
            h._scheduled = False
            h._run()
        else:
            d = net.q.pop(k - nready - ndue)
            x = rnd.random()
            fate = "deliver"
            if x < nf["drop"]:
                if self.drops < nf["max_drops"]:
                    fate = "drop"
            elif x < nf["drop"] + nf["dup"]:
                if self.dups < nf["max_dups"] and d.copies < 2:
                    fate = "dup"
            elif x < nf["drop"] + nf["dup"] + nf["rebind"]:
                # NAT rebinding: from now on this client's datagrams arrive from another source
                # port.  Only before the server has any connection for that client, so that no
                # connection sees its peer's address change (path migration is not C19's business)
                cl = self.client_addr.index(d.src) + 1 if d.src in self.client_addr else 0
                if (cl and cl not in self.rebound and d.dst == SERVER_ADDR and d.data and (d.data[0] & 0xB0) == 0x80
                        and len(d.data) >= 1200 and not any(p._c19_side == "s" and p._c19_cl == cl for p in self.protos)):
                    self.rebound.add(cl)
                    self.rebinds += 1
            if d.src in self.client_addr and (self.client_addr.index(d.src) + 1) in self.rebound:
                d.src = ("::ffff:127.0.0.1", d.src[1] + 1000, 0, 0)
            if fate == "drop":
                self.drops += 1
            elif fate == "dup":
                self.dups += 1
                d.copies += 1
                c = Dgram(d.src, d.dst, d.data, loop.now)
                c.copies = d.copies
                net.q.insert(rnd.randrange(len(net.q) + 1), c)
                net.deliver(d)
            else:
                net.deliver(d)
        # executing a callback takes time on a real loop; a frozen clock would let a
        # timer whose deadline rounds to "now" re-arm for the same instant forever.
        # A timer that keeps re-arming in the past with nothing else to do (the core's
        # stale pacing deadline does that while congestion-blocked) is a busy loop on
        # a real loop: let its time pass in larger steps.
        loop.now += 2e-6
        if nready == 0 and nnet == 0 and ndue and loop.timers and loop.timers[0]._when <= loop.now:
            self.spin += 1
            if self.spin > 30:
                loop.now += 0.004
        else:
            self.spin = 0
        self.snapshot()
        return True

    def run(self):
        try:
            self.setup()
            self.snapshot()
            quiescent = True
            while self.step():
                self.steps += 1
                if self.loop.now > HORIZON:
                    # the endpoints keep each other busy for ever (a livelock inside the QUIC core):
                    # there is no final state to judge; reported as drift, not as a verdict
                    quiescent = False
                    break
                if self.steps > STEP_BUDGET:
                    raise HarnessError("scenario %s did not quiesce within %d steps" % (self.sc["id"], STEP_BUDGET))
            for t in self.tasks:
                if t.done() and not t.cancelled() and t.exception() is not None:
                    e = t.exception()
                    if isinstance(e, HarnessError):
                        raise e
                    self.rec.emit(op="exc", type=type(e).__name__, where="task")
            self.dirty = True
            self.snapshot()
            lossless = self.drops == 0 and self.rebinds == 0 and self.spoofed == 0
            if quiescent:
                for kind in ("connected", "ping", "closed"):
                    for late in (False, True):
                        self.rec.emit(op="finalw", kind=kind, late=late)
                self.rec.emit(op="final", lossless=lossless,
                              allterm=all(p._c19_term for p in self.protos))
            else:
                self.rec.emit(op="nofinal", vtime=int(self.loop.now))
        finally:
            asyncio.events._set_running_loop(None)
        return self.rec.lines

    def stats(self):
        return {"steps": self.steps, "choice_points": self.choice_points, "nonfifo": self.nonfifo,
                "drops": self.drops, "dups": self.dups, "rebinds": self.rebinds, "spoofed": self.spoofed,
                "datagrams": self.net.sent, "protos": len(self.protos), "vtime": round(self.loop.now, 3)}


def load_modules():
    import logging
    logging.getLogger("quic").setLevel(logging.CRITICAL)
    import aioquic.asyncio.protocol as protocol
    import aioquic.asyncio.server as server
    import aioquic.buffer as buffer
    import aioquic.quic.configuration as configuration
    import aioquic.quic.connection as connection
    import aioquic.quic.events as events
    import aioquic.quic.packet as packet
    return {"protocol": protocol, "server": server, "buffer": buffer, "configuration": configuration,
            "connection": connection, "events": events, "packet": packet}


# ---------------------------------------------------------------- the scenarios
def make_scenario(rnd, sid, force=None):
    """A seeded random scenario: who does what, how each side ends, the fates."""
    force = force or {}
    nclients = force.get("nclients", 2 if rnd.random() < 0.3 else 1)
    retry = force.get("retry", rnd.random() < 0.4)
    graceful = force.get("graceful", rnd.random() < 0.35)
    lossy = force.get("lossy", rnd.random() < 0.6)

    def ops(side, graceful):
        out = []
        for _ in range(rnd.randint(0, 4)):
            x = rnd.random()
            if x < 0.3:
                if side == "c" or rnd.random() < 0.3:
                    n = rnd.choice([1, 40, 700, 3000, 9000])
                    out.append(["stream", n, rnd.choice([1, 7]) if n <= 40 else rnd.choice([100, 1200, 5000]),
                                True if graceful else rnd.random() < 0.5])
            elif x < 0.45:
                out.append(["ping", rnd.randint(1, 3), rnd.random() < 0.4])
            elif x < 0.55:
                out.append(["pings", rnd.randint(3, 6), rnd.choice([0.0, 0.001, 0.03, 0.3])])
            elif x < 0.7:
                out.append(["cid"])
            elif x < 0.8:
                out.append(["sleep", rnd.choice([0.001, 0.05, 0.5, 3.0])])
            elif x < 0.9:
                out.append(["wait_connected"])
            else:
                out.append(["yield"])
        return out

    def late():
        return [[k] if k != "ping" else ["ping", 1, False] for k in ("ping", "wait_connected", "wait_closed")
                if rnd.random() < 0.35]

    clients = []
    for i in range(nclients):
        bad = rnd.random() < 0.15 and not graceful
        c = {"wait_connected": rnd.random() < 0.7,
             "alpn": not (bad and rnd.random() < 0.5), "ca": True,
             "token": rnd.choice([16, 256]) if (rnd.random() < 0.1 and not graceful) else 0,
             "idle": rnd.choice([2.0, 10.0, 60.0]),
             "ops": ops("c", graceful), "late": late()}
        if bad and c["alpn"]:
            c["ca"] = False
        if graceful:
            c["ops"].append(["gather"])
            c["end"] = rnd.choice(["close", "close", "close_err", "idle"])
        else:
            if rnd.random() < 0.3:
                c["ops"].append(["gather"])
            c["end"] = rnd.choice(["close", "close_err", "idle", "idle"])
        clients.append(c)
    sops = ops("s", graceful)
    if graceful:
        # a graceful server never closes on its own and never opens streams nobody waits for
        sops = [o for o in sops if o[0] != "stream"]
    elif rnd.random() < 0.3:
        sops.append(["close", rnd.choice([0, 0x1C19])])
    server = {"idle": rnd.choice([2.0, 10.0, 60.0]), "ops": sops, "late": late(),
              "echo": rnd.choice(["after", "incremental"]) if graceful else rnd.choice(["after", "incremental", "none"])}
    if graceful:
        # nobody idles out before the work is done
        server["idle"] = 60.0
        for c in clients:
            c["idle"] = 60.0
            c["ops"] = [o for o in c["ops"] if o[0] != "sleep" or o[1] < 1.0]
        server["ops"] = [o for o in server["ops"] if o[0] != "sleep" or o[1] < 1.0]
    net = {"drop": rnd.choice([0.05, 0.15, 0.3]) if lossy else 0.0,
           "dup": rnd.choice([0.0, 0.1, 0.25]), "rebind": rnd.choice([0.0, 0.3]) if (lossy and retry) else 0.0,
           "max_drops": rnd.choice([1, 3, 8, 1000]), "max_dups": rnd.choice([2, 6, 20]),
           "max_delay": rnd.choice([0.0, 0.02, 0.3])}
    net["attack"] = bool(retry and rnd.random() < 0.7)
    sched = {"seed": rnd.randrange(1 << 30), "fifo": rnd.choice([0.0, 0.5, 0.9]), "tick": rnd.choice([0.0, 0.02, 0.1])}
    return {"id": sid, "retry": retry, "clients": clients, "server": server, "net": net, "sched": sched,
            "expect_complete": bool(graceful)}


def run_scenario(A, sc):
    r = Runner(A, sc)
    lines = r.run()
    return lines, r.stats()
