#!/bin/sh
# MANIFEST.setup_cmd: verify the pre-installed tools this framework needs; nothing to build ahead of the checks
set -e
cd "$(dirname "$0")"
test -f /opt/veriftools/tla/tla2tools.jar && java -version >/dev/null 2>&1 || { echo "TLC/java missing"; exit 1; }
/venv/bin/python -c "import cryptography, pylsqpack, hypothesis" || exit 1
gcc --version >/dev/null && clang --version >/dev/null
mkdir -p evidence .work
echo setup ok
